# Per-property checks.  Every verdict is computed by TLC from the TLA+ specification:
#   leg A  model checking of the implementation-shaped model against the property-level spec
#   leg B  TLC-generated behaviours replayed through the real library
#   leg C  randomized behaviours of the real library validated against the trace specification
import re, json, os, random, time, hashlib
from concurrent.futures import ThreadPoolExecutor
from vlib import *

CHECKS = {}


def check(*ids):
    def deco(fn):
        for i in ids:
            CHECKS[i] = fn
        return fn
    return deco


def big(n):
    out = []
    while n > 0:
        out.append(n & 255)
        n >>= 8
    return out[::-1]


def frombig(a):
    n = 0
    for d in a:
        n = n * 256 + d
    return n


def s4(s):
    return [ord(c) for c in s]


# ----------------------------------------------------------------------------------------
# mux family (C01 C02 C13 C14 C15 C17)

KINDS = ["avc", "aac", "hevc", "ttxt", "vp9"]


def full_conf(kind, timescale, rng, lang=None):
    ttype = {"aac": "audio", "ttxt": "subtitle"}.get(kind, "video")
    c = {"kind": kind, "ttype": ttype, "timescale": big(timescale), "lang": s4(lang or "und"),
         "w": 0, "h": 0, "sps": [], "pps": [], "profile": 0, "freq": 0, "chan": 0, "bitrate": []}
    if ttype == "video":
        c["w"], c["h"] = rng.choice([(320, 240), (1920, 1080), (1, 1), (65535, 2)])
    if kind == "avc":
        c["sps"] = [0x67, rng.choice([66, 77, 100]), rng.randrange(256), rng.randrange(256)] + [rng.randrange(256) for _ in range(rng.choice([0, 1, 8]))]
        c["pps"] = [0x68, 0xEE, 0x3C, 0x80][: rng.choice([1, 4])]
    if kind == "aac":
        c["profile"], c["freq"], c["chan"], c["bitrate"] = rng.choice([2, 2, 5, 29, 34, 42]), rng.randrange(13), rng.randrange(1, 8), big(rng.choice([0, 96000, 128000]))
    return c


def widen(v, scale):
    """Map a value of the width-scaled model (limit 256) to the real width (limit 2^32):
    v = a*128 + b with b in (-64, 64]  ->  a*2^31 + b.  Additive for the model's alphabets."""
    if not scale:
        return v
    a, b = divmod(v, 128)
    if b > 64:
        a, b = a + 1, b - 128
    return a * (1 << 31) + b


def model_case_to_harness(mc, idx, rng, movie_ts, startpos, scale=False, name="mc"):
    calls = []
    ti = 0
    for c in mc["calls"]:
        if c["op"] == "add":
            kind = KINDS[(idx + ti) % len(KINDS)]
            ti += 1
            calls.append({"op": "add", "conf": full_conf(kind, widen(frombig(c["conf"]["timescale"]), False), rng)})
        elif c["op"] == "write":
            ln = widen(c["len"], scale)
            calls.append({"op": "write", "t": c["t"], "len": ln, "fill": (idx * 1009 + len(calls) * 31) & 0xFFFFFF,
                          "dur": big(widen(frombig(c["dur"]), scale)), "cts": c["cts"], "sync": c["sync"],
                          "valid": c["valid"]})
            if "fault" in c:
                calls[-1]["fault"], calls[-1]["written"] = c["fault"], c["written"]
    return {"id": "%s-%d" % (name, idx), "seed": idx,
            "cfg": {"major": s4("isom"), "minor": big(512), "brands": [s4("isom"), s4("iso2")],
                    "timescale": big(movie_ts)},
            "pos": big(widen(startpos, scale)), "calls": calls}


def write_ndjson(path, items):
    with open(path, "w") as f:
        for it in items:
            f.write(json.dumps(it, separators=(",", ":")))
            f.write("\n")


def read_ndjson(path):
    return [json.loads(l) for l in open(path) if l.strip()]


def validate_sharded(spec, cases, wd, name, shards, profile="debug", runner="mux-run", timeout=1500):
    """Run the cases through the real library (harness, pure recording) and validate the traces with TLC."""
    if not cases:
        return {"fails": [], "events": 0, "runs": 0, "states": 0, "accepted": True}
    shards = max(1, min(shards, len(cases)))
    parts = [cases[i::shards] for i in range(shards)]
    jobs = []
    for i, part in enumerate(parts):
        cp = os.path.join(wd, "%s-cases-%d.ndjson" % (name, i))
        tp = os.path.join(wd, "%s-trace-%d.ndjson" % (name, i))
        write_ndjson(cp, part)
        jobs.append((cp, tp))

    def one(job):
        cp, tp = job
        st = mp4v([runner, cp, tp], profile=profile, timeout=timeout)
        r = tlc_trace(spec, tp, wd, timeout=timeout)
        r["events"] = st.get("events", 0)
        r["trace"] = tp
        return r

    build_harness(profile)
    with ThreadPoolExecutor(max_workers=shards) as ex:
        rs = list(ex.map(one, jobs))
    out = {"fails": [], "events": 0, "runs": len(cases), "states": 0, "accepted": True, "tails": []}
    for r in rs:
        out["fails"] += r["fails"]
        out["events"] += r["events"]
        out["states"] += r["distinct"]
        if not r["accepted"]:
            out["accepted"] = False
            out["tails"].append(r["raw_tail"])
    if not out["accepted"]:
        raise ToolError("trace validation did not consume the whole trace (%s):\n%s" % (name, "\n".join(out["tails"])[:3000]))
    return out


def by_id(cases):
    return {c["id"]: c for c in cases}


MUX_LEVEL_TEXT = "model_checking"


def mux_generate(tier, wd, rng, cfgs):
    """Leg A: model-check MuxImpl against Mux; returns (mc stats list, model cases)."""
    stats, cases = [], []
    for cfg in cfgs:
        r = tlc_mc("MC_MuxImpl", cfg, wd, workers=8 if tier == "quick" else 14, timeout=3000)
        if r["violated"]:
            # the MODEL violates the property: a defect of the specified algorithm (or of the model)
            raise ToolError("model %s violates %s:\n%s" % (cfg, r["violated"], r["tail"][-2500:]))
        if not r["ok"]:
            raise ToolError("TLC failed on %s:\n%s" % (cfg, r["tail"][-2500:]))
        stats.append({"cfg": cfg, "states": r["states"], "distinct": r["distinct"], "depth": r["depth"],
                      "cases": len(r["cases"]), "actions": r["actions"], "wall": round(r["wall"], 1)})
        cfgtext = open(os.path.join(SPEC, cfg + ".cfg")).read()
        for a in ("IStart", "IAddTrack", "IWriteSample", "IRejectWrite", "IWriteEnd", "IWriteSampleFault"):
            if a == "IRejectWrite" and "MaxRejects = 0" in cfgtext:
                continue
            if a == "IWriteSampleFault" and "MaxFaults = 0" in cfgtext:
                continue
            if r["actions"].get(a, 0) == 0:
                raise ToolError("vacuity: action %s never taken in %s" % (a, cfg))
        cases.append((cfg, r["cases"]))
    return stats, cases


def mux_family(prop, tier, replay, tags, with_random=True, mc_cfgs=None, replay_limit=None, scale=False,
               movie_ts=3, startpos=0, nrandom=None, extra_cases=None, level="model_checking"):
    t0 = time.time()
    rng = random.Random(seed())
    wd = workdir(prop + "-" + tier)
    known = load_known()
    if replay:
        cases = [json.load(open(replay))]
        res = validate_sharded("Trace_Mux", cases, wd, "replay", 1)
        report_mux(prop, tier, tags, res, cases, [], t0, known, level, [])
        return
    mc_cfgs = mc_cfgs or (["MC_MuxImpl_q"] if tier == "quick" else ["MC_MuxImpl_small", "MC_MuxImpl_one4"])
    stats, gen = mux_generate(tier, wd, rng, mc_cfgs)
    cases = []
    for cfg, mcs in gen:
        idxs = list(range(len(mcs)))
        lim = replay_limit if replay_limit is not None else (1200 if tier == "quick" else 40000)
        if len(idxs) > lim:
            idxs = sorted(rng.sample(idxs, lim))
        for i in idxs:
            cases.append(model_case_to_harness(mcs[i], i, rng, movie_ts, startpos, scale=scale, name=cfg.replace("MC_MuxImpl_", "mc")))
    if extra_cases:
        cases += extra_cases
    if with_random:
        n = nrandom if nrandom is not None else (120 if tier == "quick" else 6000)
        rp = os.path.join(wd, "random-cases.ndjson")
        mp4v(["mux-gen", str(seed()), str(n), rp])
        cases += read_ndjson(rp)
    res = validate_sharded("Trace_Mux", cases, wd, "mux", 6 if tier == "quick" else 16)
    report_mux(prop, tier, tags, res, cases, stats, t0, known, level, mc_cfgs)


def report_mux(prop, tier, tags, res, cases, stats, t0, known, level, mc_cfgs):
    idx = by_id(cases)
    viol, kn = [], []
    other = 0
    for f in res["fails"]:
        if f["prop"] not in tags:
            other += 1
            if os.environ.get("VERIF_DEBUG"):
                log("  other: %s %s %s" % (f["prop"], f["what"], json.dumps(f["detail"])[:160]))
            continue
        k = match_known(prop, f, known) or match_known(f["prop"], f, known)
        text = "%s: %s %s (run %s, trace line %s)" % (f["prop"], f["what"], json.dumps(f["detail"])[:200], f["run"], f["line"])
        if k:
            kn.append(k["what"])
            continue
        c = idx.get(f["run"])
        path = write_replay(prop, f["run"].replace("/", "_"), c if c is not None else {"run": f["run"]})
        viol.append((path, text))
    if other:
        log("[%d failures tagged with other properties are reported by their own checks]" % other)
    nontrivial = sum(1 for c in cases if sum(1 for x in c["calls"] if x["op"] == "write" and x.get("valid", True)) >= 2)
    samples = [c for c in cases[:1]] + [c for c in cases[-1:]]
    cov = {
        "states": max(1, sum(s["distinct"] for s in stats) + res["states"]),
        "transitions": max(1, sum(s["states"] for s in stats) + res["events"]),
        "traces_validated_against_impl": res["runs"],
        "samples": [{"id": c["id"], "calls": c["calls"][:6]} for c in samples],
        "evaluations": res["runs"],
        "distinct_nontrivial": nontrivial,
        "rule": "muxing histories: every terminal state of the bounded MuxImpl model (or a seeded subset in the quick tier) plus "
                "seeded random histories; distinct by construction (distinct model states / distinct seeds); non-trivial = at least two accepted samples",
        "model_runs": stats,
        "trace_events_validated": res["events"],
        "trace_states": res["states"],
        "failures_tagged_for_other_properties": other,
        "exhaustive": False,
    }
    write_evidence(prop, tier, level, cov, time.time() - t0, len(viol),
                   ["TLC and the CommunityModules Json/IOUtils overrides", "the TLA+ transcription of the ISO layouts (spec/Wire*.tla, Iso.tla)",
                    "the harness only records (no oracle); payloads above 32 bytes are compared through a 64-bit digest"])
    finish(prop, viol, kn)


def reject_cases(rng, tag):
    """histories in which the muxer refuses calls for arithmetic reasons and is then used further: what it
    refused leaves no trace (C01), the output stays well-formed (C02) and keeps its configuration (C14), nothing
    panics (C17).  The trace specification takes `err` answers as they come: nothing here says which call fails."""
    U = 0xFFFFFFFF
    out = []

    def wr(t, dur, ln=2, sync=True):
        return {"op": "write", "t": t, "len": ln, "fill": rng.randrange(1 << 24), "dur": big(dur), "cts": 0, "sync": sync, "valid": True}

    def hist(confs, writes, mts):
        out.append({"id": "%s-%d" % (tag, len(out)), "seed": len(out),
                    "cfg": {"major": s4("isom"), "minor": big(512), "brands": [s4("isom")], "timescale": big(mts)}, "pos": [],
                    "calls": [{"op": "add", "conf": c} for c in confs] + writes})
    # track duration (media duration x movie timescale / track timescale) beyond 64 bits: 1, 2, 3, 4 refused
    # samples after an accepted one, then the end -- or a further sample that is accepted
    for kind in ("avc", "aac", "ttxt"):
        for nrej in (1, 2, 3, 4):
            hist([full_conf(kind, 1, rng)], [wr(1, U)] + [wr(1, U) for _ in range(nrej)], U)
            hist([full_conf(kind, 1, rng), full_conf("aac", 48000, rng)],
                 [wr(1, U), wr(2, 1024)] + [wr(1, U) for _ in range(nrej)] + [wr(2, 1024), wr(1, 0), wr(2, 1024)], U)
    # media duration beyond 64 bits cannot be reached with few samples; track timescale 2 / 3 with a huge movie timescale
    for tts in (2, 3):
        hist([full_conf("hevc", tts, rng)], [wr(1, U), wr(1, U), wr(1, U), wr(1, 1), wr(1, U), wr(1, 0)], U)
    # configuration variety that changes the produced bytes: a major brand that is not among the compatible brands,
    # every escaped audio object type, an AAC track without a configured bitrate whose samples all last 0 ticks
    for i, aot in enumerate([32, 33, 36, 39, 40, 42, 44, 45]):
        c = full_conf("aac", 44100, rng)
        c["profile"], c["bitrate"] = aot, big(0 if i % 2 == 0 else 64000)
        out.append({"id": "%s-%d" % (tag, len(out)), "seed": len(out),
                    "cfg": {"major": s4("mp42"), "minor": big(1), "brands": [s4("isom"), s4("iso2")][: 1 + i % 2], "timescale": big(1000)}, "pos": [],
                    "calls": [{"op": "add", "conf": c}] + [wr(1, 0 if i % 4 == 0 else 1024, ln=3) for _ in range(3)]})
    # two tracks of different timescales: the one with most media ticks is not the one that lasts longest
    for (ts1, d1, n1, ts2, d2, n2, mts) in ((90000, 30000, 3, 1000, 1000, 3, 1000), (1000, 500, 2, 48000, 1024, 100, 600), (1, 1, 5, U, U, 1, 1000)):
        hist([full_conf("avc", ts1, rng), full_conf("aac", ts2, rng)],
             [wr(1, d1) for _ in range(n1)] + [wr(2, d2) for _ in range(n2)], mts)
        hist([full_conf("aac", ts2, rng), full_conf("vp9", ts1, rng)],
             [wr(1, d2) for _ in range(n2)] + [wr(2, d1) for _ in range(n1)], mts)
    return out


def c01_extra(tier, rng):
    cases = duration_cases(rng, "dur") + reject_cases(rng, "rej")
    # more than 4 GiB of media data (64-bit media data header), the small samples around it read back
    H = 1 << 31
    calls = [{"op": "add", "conf": full_conf("avc", 1000, rng)}, {"op": "add", "conf": full_conf("aac", 48000, rng)}]
    for k, ln in enumerate([5, H - 8, 9, H - 8, 7]):
        calls.append({"op": "write", "t": 1, "len": ln, "fill": 0x41 + k, "dur": big(1000), "cts": 0, "sync": k == 0, "valid": True})
        calls.append({"op": "write", "t": 2, "len": 6, "fill": 0x61 + k, "dur": big(48000), "cts": 0, "sync": True, "valid": True})
    cases.append({"id": "over4g", "seed": 3, "twice": False, "readback": "small",
                  "cfg": {"major": s4("isom"), "minor": big(512), "brands": [s4("isom")], "timescale": big(1000)}, "pos": [], "calls": calls})
    # rejected add_track calls between accepted ones: the accepted tracks are 1..n in the order added
    bad1 = full_conf("hevc", 0, rng)                       # timescale 0
    bad2 = full_conf("avc", 1000, rng)
    bad2["sps"] = [0x67]                                   # parameter set shorter than its header
    for pattern in (["ok", "bad1", "bad2", "ok"], ["bad2", "ok", "bad1", "ok", "ok"]):
        calls, nt = [], 0
        for pt in pattern:
            if pt == "ok":
                nt += 1
                calls.append({"op": "add", "conf": full_conf(KINDS[nt % 5], 1000, rng)})
            else:
                calls.append({"op": "add", "conf": bad1 if pt == "bad1" else bad2, "valid": False})
        for k in range(3):
            for t in range(1, nt + 1):
                calls.append({"op": "write", "t": t, "len": 3 + t + k, "fill": 17 * t + k, "dur": big(400), "cts": 0, "sync": k == 0, "valid": True})
            calls.append({"op": "write", "t": nt + 1, "len": 2, "fill": 1, "dur": big(1), "cts": 0, "sync": True, "valid": False})
        cases.append({"id": "addrej-%d" % len(pattern), "seed": len(pattern),
                      "cfg": {"major": s4("isom"), "minor": big(512), "brands": [s4("isom")], "timescale": big(1000)}, "pos": [], "calls": calls})
    return cases


@check("C01")
def c01(prop, tier, replay):
    mux_family(prop, tier, replay, {"C01"}, extra_cases=c01_extra(tier, random.Random(seed())))


def mdat_boundary_cases(tier, rng):
    """media data boxes whose size sits exactly on the 32-bit limit of the size field: the box
    (8 bytes header + 8 bytes placeholder + payload) is 2^32 - 1, 2^32, 2^32 + 7, 2^32 + 8 bytes long"""
    H = 1 << 31
    out = []
    for i, lens in enumerate([[H - 8, H - 8], [H - 8, H - 1]] + ([[H - 9, H - 8], [H - 4, H - 4]] if tier == "thorough" else [])):
        calls = [{"op": "add", "conf": full_conf("avc", 1000, rng)}]
        for k, ln in enumerate(lens):
            calls.append({"op": "write", "t": 1, "len": ln, "fill": 0x41 + k, "dur": big(1000), "cts": 0, "sync": k == 0, "valid": True})
        out.append({"id": "mdat4g-%d" % i, "seed": i, "twice": False, "readback": False,
                    "cfg": {"major": s4("isom"), "minor": big(512), "brands": [s4("isom")], "timescale": big(1000)},
                    "pos": [], "calls": calls})
    return out


@check("C02")
def c02(prop, tier, replay):
    rng = random.Random(seed())
    mux_family(prop, tier, replay, {"C02"}, extra_cases=mdat_boundary_cases(tier, rng) + reject_cases(rng, "rej"))


# ----------------------------------------------------------------------------------------
# C13: 32 -> 64 bit transitions.  Leg A at scaled width (one byte per "32-bit" field), the model's
# histories are then mapped to the real width (128 -> 2^31, 255 -> 2^32-1, ...) and replayed.

def payload_bytes(case):
    return sum(c["len"] for c in case["calls"] if c["op"] == "write" and c.get("valid", True))


@check("C13")
def c13(prop, tier, replay):
    t0 = time.time()
    rng = random.Random(seed())
    wd = workdir(prop + "-" + tier)
    known = load_known()
    if replay:
        cases = [json.load(open(replay))]
        res = validate_sharded("Trace_Mux", cases, wd, "replay", 1)
        report_mux(prop, tier, {"C01", "C02", "C13", "C14"}, res, cases, [], t0, known, "model_checking", [])
        return
    if tier == "quick":
        cfgs = ["MC_MuxImpl_wdur", "MC_MuxImpl_wlen", "MC_MuxImpl_wpos215", "MC_MuxImpl_wpos216", "MC_MuxImpl_wpos250"]
    else:
        cfgs = ["MC_MuxImpl_wdur4", "MC_MuxImpl_wdurc", "MC_MuxImpl_wlen4", "MC_MuxImpl_wpos200", "MC_MuxImpl_wpos215",
                "MC_MuxImpl_wpos216", "MC_MuxImpl_wpos250"]
    stats, gen = mux_generate(tier, wd, rng, cfgs)
    cheap, heavy = [], []
    for cfg, mcs in gen:
        sp = {"wpos200": 200, "wpos215": 215, "wpos216": 216, "wpos250": 250}.get(cfg.replace("MC_MuxImpl_", ""), 0)
        for i, mc in enumerate(mcs):
            c = model_case_to_harness(mc, i, rng, 3, sp, scale=True, name=cfg.replace("MC_MuxImpl_", "w"))
            (heavy if payload_bytes(c) > (64 << 20) else cheap).append(c)
    lim = 500 if tier == "quick" else 6000
    if len(cheap) > lim:
        cheap = [cheap[i] for i in sorted(rng.sample(range(len(cheap)), lim))]
    # payload crossings cost ~2 GiB of memcpy per sample: a few, run one at a time
    def crossing(c):
        p = payload_bytes(c) + 16
        return abs(p - (1 << 32)) <= 64
    # one case per distinct payload sum next to the 2^32 boundary of the mdat size (payload + 16):
    # quick takes the sums just below and exactly at the limit, thorough all of them and more
    bysum = {}
    for c in sorted(heavy, key=lambda c: len(c["calls"])):
        bysum.setdefault(payload_bytes(c) + 16 - (1 << 32), c)
    near = sorted([d for d in bysum if abs(d) <= 64], key=lambda d: (abs(d + 0.5), d))
    nheavy = 2 if tier == "quick" else 24
    pick = [bysum[d] for d in near[:nheavy]]
    rest = [bysum[d] for d in sorted(bysum, key=abs) if abs(d) > 64]
    pick += rest[:max(0, nheavy - len(pick))]
    log("[heavy payload sums relative to 2^32: %s]" % [payload_bytes(c) + 16 - (1 << 32) for c in pick])
    # duration sums on the 32-bit boundaries at real width, every pair of timescales incl. those whose rescaled
    # durations need more than 53 bits
    cheap += duration_cases(rng, "wdur64")
    res = validate_sharded("Trace_Mux", cheap, wd, "wide", 6 if tier == "quick" else 14)
    res2 = validate_sharded("Trace_Mux", pick, wd, "heavy", 1, profile="release", timeout=3000)
    for k in ("fails",):
        res[k] += res2[k]
    for k in ("events", "runs", "states"):
        res[k] += res2[k]
    report_mux(prop, tier, {"C01", "C02", "C13", "C14"}, res, cheap + pick, stats, t0, known, "model_checking", cfgs)


# ----------------------------------------------------------------------------------------
# C14: configuration domains (enumerated), judged by Codec.tla on the trace

AOTS = [x for x in range(1, 47) if x not in (10, 11, 18, 31)]


def cfg_case(idx, confs, rng, movie_ts=1000, brands=None, major="isom", minor=512, nsamples=2):
    calls = [{"op": "add", "conf": c} for c in confs]
    for t in range(1, len(confs) + 1):
        tts = frombig(confs[t - 1]["timescale"])
        for k in range(nsamples):
            calls.append({"op": "write", "t": t, "len": rng.choice([0, 3, 9]), "fill": rng.randrange(1 << 24),
                          "dur": big(rng.choice([1, tts, tts // 3 + 1, 1000])), "cts": 0, "sync": k == 0, "valid": True})
    return {"id": "cfg-%d" % idx, "seed": idx,
            "cfg": {"major": s4(major), "minor": big(minor), "brands": [s4(b) for b in (brands if brands is not None else ["isom"])],
                    "timescale": big(movie_ts)},
            "pos": [], "calls": calls}


def duration_cases(rng, tag):
    """histories whose duration sums sit on the 32-bit boundaries of the header fields and of the
    run-length time table (durations cost nothing: the samples are a few bytes long)"""
    U = 0xFFFFFFFF
    H = 1 << 31
    out = []
    pats = [[H - 1, H - 1], [H - 1, H], [H, H - 1, 0], [H, H], [U], [U, 1], [U - 1, 1], [U - 1, 2], [U, U], [H, H, 7], [U, U, 1, 1],
            [H - 1, H - 1, 1], [H - 1, H - 1, 1, 5], [1, U - 1, 3], [0, U, 0, 2]]
    for i, durs in enumerate(pats):
        # (the last three: media duration x movie timescale beyond 2^53, quotient beyond 2^53 -- not exact in a double)
        for tts, mts in ((1000, 1000), (90000, 1000), (1000, 90000), (U, 1), (1, U), (U, U - 1), (4000000000, 3000000000),
                         (3, U), (7, 4000000007), (44100, 1000000000)):
            kind = KINDS[(i + tts) % len(KINDS)]
            calls = [{"op": "add", "conf": full_conf(kind, tts, rng)}, {"op": "add", "conf": full_conf("aac", 48000, rng)}]
            for k, d in enumerate(durs):
                calls.append({"op": "write", "t": 1, "len": rng.choice([1, 3]), "fill": rng.randrange(1 << 24), "dur": big(d), "cts": 0,
                              "sync": k == 0, "valid": True})
            calls.append({"op": "write", "t": 2, "len": 2, "fill": 7, "dur": big(1024), "cts": 0, "sync": True, "valid": True})
            out.append({"id": "%s-%d" % (tag, len(out)), "seed": len(out),
                        "cfg": {"major": s4("isom"), "minor": big(512), "brands": [s4("isom")], "timescale": big(mts)},
                        "pos": [], "calls": calls})
    return out


def c14_cases(tier, rng):
    cases = duration_cases(rng, "cfgdur") + reject_cases(rng, "cfgrej") \
        + [dict(c, id="cfg" + c["id"]) for c in c01_extra(tier, rng) if c["id"].startswith("addrej")]
    n = 0
    # all audio object types x frequency indices x channel layouts
    combos = [(a, f, c) for a in AOTS for f in range(13) for c in range(1, 8)]
    if tier == "quick":
        # every object type, every frequency index, every channel layout at least once + a seeded sample
        base = [(a, rng.randrange(13), rng.randrange(1, 8)) for a in AOTS] + [(2, f, 2) for f in range(13)] + [(2, 3, c) for c in range(1, 8)]
        combos = base + rng.sample(combos, 150)
    for (a, f, c) in combos:
        conf = full_conf("aac", rng.choice([44100, 48000, 1000]), rng)
        conf.update({"profile": a, "freq": f, "chan": c, "bitrate": big(rng.choice([0, 1, 128000, 0xFFFFFFFF]))})
        cases.append(cfg_case(n, [conf], rng)); n += 1
    dims = [0, 1, 320, 32767, 32768, 65535]
    for kind in ("avc", "hevc", "vp9"):
        for w in dims:
            for h in dims:
                conf = full_conf(kind, 90000, rng)
                conf["w"], conf["h"] = w, h
                cases.append(cfg_case(n, [conf], rng)); n += 1
    # the configured track kind is independent of the codec (a text track marked as video, audio marked as subtitle ...)
    for kind in KINDS:
        for tt in ("video", "audio", "subtitle"):
            conf = full_conf(kind, 1000, rng)
            conf["ttype"] = tt
            cases.append(cfg_case(n, [conf, full_conf("aac", 48000, rng)], rng)); n += 1
    letters = "abcdefghijklmnopqrstuvwxyz"
    langs = ["aaa", "zzz", "und", "eng", "azz", "zaa", "mzm", "pqr", "xyz"] + ["".join(rng.choice(letters) for _ in range(3)) for _ in range(40 if tier == "quick" else 400)]
    for i, lg in enumerate(langs):
        conf = full_conf(KINDS[i % 5], 1000, rng, lang=lg)
        cases.append(cfg_case(n, [conf], rng)); n += 1
    for spsn in (4, 5, 64, 255):
        for ppsn in (1, 4, 64):
            conf = full_conf("avc", 600, rng)
            conf["sps"] = [0x67] + [(37 * i + 11) % 256 for i in range(spsn - 1)]
            conf["pps"] = [(91 * i + 5) % 256 for i in range(ppsn)]
            cases.append(cfg_case(n, [conf], rng)); n += 1
    # parameter sets are opaque bytes: sets that happen to begin like an Annex B start code, or with zeros
    for sps in ([0, 0, 0, 1, 0x67, 100, 0, 31, 0xAC], [0, 0, 1, 0x67, 100, 0, 31], [0, 0, 0, 0, 0, 0, 0, 1], [0x67, 0, 0, 0, 1, 9]):
        for pps in ([0, 0, 0, 1, 0x68, 0xEE], [0, 0, 1], [0x68, 0xEE, 0x3C, 0x80]):
            conf = full_conf("avc", 600, rng)
            conf["sps"], conf["pps"] = sps, pps
            cases.append(cfg_case(n, [conf], rng)); n += 1
    # parameter sets at and beyond the 16-bit length field of the avcC record: accepted ones must come back
    for spsn, ppsn in ((65535, 4), (4, 65535), (65536, 4), (4, 65536), (70000, 70000)):
        conf = full_conf("avc", 600, rng)
        conf["sps"] = [0x67, 100, 0, 31] + [(i * 7) % 256 for i in range(spsn - 4)]
        conf["pps"] = [0x68] + [(i * 11) % 256 for i in range(ppsn - 1)]
        cases.append(cfg_case(n, [conf], rng)); n += 1
    for brands in ([], ["isom"], ["isom", "iso2"], ["isom", "iso2", "avc1"], ["\x00\x00\x00\x00", "zzzz", "mp41", "dash"],
                   ["isom", "iso2", "iso2", "mp41"], ["mp42", "mp42"], ["dash", "isom", "dash", "dash", "dash"]):
        for minor in (0, 512, 0xFFFFFFFF):
            for mts in (1, 1000, 90000, 0xFFFFFFFF):
                conf = full_conf(rng.choice(KINDS), rng.choice([1, 1000, 90000, 0xFFFFFFFF]), rng)
                cases.append(cfg_case(n, [conf, full_conf("aac", 48000, rng)], rng, movie_ts=mts, brands=brands,
                                      major=rng.choice(["isom", "mp42", "\x7f\x7f\x7f\x7f"]), minor=minor)); n += 1
    return cases


@check("C14")
def c14(prop, tier, replay):
    t0 = time.time()
    rng = random.Random(seed())
    mux_family(prop, tier, replay, {"C14"}, extra_cases=c14_cases(tier, rng),
               replay_limit=200 if tier == "quick" else 5000, nrandom=100 if tier == "quick" else 3000)


# ----------------------------------------------------------------------------------------
# C17: the whole value range of every public configuration / sample field

def c17_cases(tier, rng):
    cases = []
    n = [0]

    def add(confs, writes, movie_ts=1000, tag="deg"):
        calls = [{"op": "add", "conf": c} for c in confs] + writes
        cases.append({"id": "%s-%d" % (tag, n[0]), "seed": n[0],
                      "cfg": {"major": s4("isom"), "minor": big(0), "brands": [], "timescale": big(movie_ts)},
                      "pos": [], "calls": calls})
        n[0] += 1

    def w(t, ln=3, dur=1, cts=0, sync=True, valid=True, fault=None, written=0):
        d = {"op": "write", "t": t, "len": ln, "fill": rng.randrange(1 << 24), "dur": big(dur), "cts": cts,
             "sync": sync, "valid": valid}
        if fault:
            d["fault"], d["written"] = fault, written
        return d

    U = 0xFFFFFFFF
    # timescales (track and movie) over the whole range, incl. zero
    for tts in (0, 1, 2, U - 1, U):
        for mts in (0, 1, U):
            for kind in KINDS:
                c = full_conf(kind, tts, rng)
                add([c], [w(1, dur=d) for d in rng.sample([0, 1, tts // 2, tts, U], 3)], movie_ts=mts)
    # a chunk that stays open while the durations buffered in it sum past 2^32 - 1
    for tts, durs in ((U, [1 << 31, 1 << 31, 1 << 31, 1]), (U, [U - 1, U - 1, 5]), (U - 1, [(1 << 31) - 1, 1 << 31, 3, U])):
        for kind in ("avc", "aac"):
            add([full_conf(kind, tts, rng)], [w(1, dur=d) for d in durs], movie_ts=1000)
    # parameter sets of every short length
    for sl in range(0, 7):
        for pl in (0, 1, 4):
            c = full_conf("avc", 1000, rng)
            c["sps"] = [0x67, 100, 0, 31, 0xAC, 0xD9][:sl]
            c["pps"] = [0x68, 0xEB, 0xE3, 0xCB][:pl]
            add([c], [w(1), w(1, ln=0)])
    # short parameter sets that begin like an Annex B start code
    for sps in ([0, 0, 0, 1], [0, 0, 0, 1, 0x67], [0, 0, 0, 1, 0x67, 100], [0, 0, 0, 1, 0x67, 100, 0], [0, 0, 0, 1, 0x67, 100, 0, 31], [0, 0, 1], [0, 0, 1, 0x67]):
        for pps in ([0, 0, 0, 1], [0x68]):
            c = full_conf("avc", 1000, rng)
            c["sps"], c["pps"] = sps, pps
            add([c], [w(1)])
    # parameter sets longer than the 16-bit length field of the avcC record
    for spsn, ppsn in ((65536, 4), (4, 65536), (100000, 1)):
        c = full_conf("avc", 1000, rng)
        c["sps"], c["pps"] = [0x67, 100, 0, 31] + [1] * (spsn - 4), [0x68] * ppsn
        add([c], [w(1)])
    # languages: empty, short, long, non-letters, non-ASCII
    # ... and every alignment of 1-, 2-, 3- and 4-byte characters (1 or 2 UTF-16 units) with the
    # byte / character / UTF-16 positions 0..3 that a three-letter code is cut from
    import itertools
    pieces = ["a", "\u00e9", "\u65e5", "\U0001F600"]
    aligned = ["".join(t) for k in (1, 2, 3) for t in itertools.product(pieces, repeat=k)] + ["na\u00efve", "zzzzzzzzzzzzzzzzzzzzzzzzzzzzzzzzzzzzzzzz"]
    for lg in ["", "e", "en", "engl", "ENG", "123", "\x00\x00\x00", "eé", "日本語", "~~~", "   "] + aligned:
        c = full_conf(rng.choice(KINDS), 1000, rng)
        c["lang"] = list(lg.encode("utf-8"))
        add([c], [w(1)])
    # maximal durations / rendering offsets, duration sums that cross every limit
    for kind in KINDS:
        for durs in ([U], [U, U], [U, 1], [U, U, U, 2], [1 << 31, 1 << 31], [0, 0, 0]):
            for tts in (1, 1000, U):
                add([full_conf(kind, tts, rng)], [w(1, dur=d, cts=rng.choice([0, 2147483647, -2147483648])) for d in durs],
                    movie_ts=rng.choice([1, 1000, U]))
    # unknown track ids, no tracks, samples before any track
    add([], [])
    add([], [w(0, valid=False), w(1, valid=False), w(U, valid=False)])
    add([full_conf("aac", 48000, rng)], [w(0, valid=False), w(2, valid=False), w(U, valid=False), w(1), w(U, valid=False)])
    # a track that never receives a sample next to one that does
    add([full_conf("avc", 1000, rng), full_conf("aac", 1000, rng)], [w(2), w(2)])
    add([full_conf(k, 1000, rng) for k in KINDS], [])
    # the stream fails during one or more write_sample calls and the history goes on: later calls
    # return something, they do not panic (timescale 2: a flush every 2 ticks)
    for kind in KINDS:
        for pat in ("F.", "F..", ".F.", "FF.", "F.F.", "..F..", "F", ".F"):
            for fk in ("seek", "write"):
                ws = [w(1, ln=rng.choice([0, 1, 5]), dur=rng.choice([2, 3]), fault=(fk if ch == "F" else None),
                        written=rng.choice([0, 1, 4])) for ch in pat]
                add([full_conf(kind, 2, rng)], ws, tag="fault")
    add([full_conf("avc", 2, rng), full_conf("aac", 3, rng)],
        [w(1, dur=2, fault="write"), w(2, dur=3, fault="seek"), w(2, dur=1), w(1, dur=1), w(2, dur=5), w(1, dur=2)], tag="fault")
    # dimensions
    for kind in ("avc", "hevc", "vp9"):
        c = full_conf(kind, 1000, rng)
        c["w"], c["h"] = 65535, 65535
        add([c], [w(1)])
    # very large samples: 16 MiB - 1, 16 MiB, 16 MiB + 1 on every kind (24-bit bufferSizeDB on AAC)
    big_lens = [(1 << 24) - 1, 1 << 24, (1 << 24) + 1]
    for kind in (KINDS if tier == "thorough" else ["aac", "avc"]):
        for ln in (big_lens if tier == "thorough" else big_lens[1:2]):
            add([full_conf(kind, 1000, rng)], [w(1, ln=ln), w(1, ln=1)], tag="big")
    return cases


@check("C17")
def c17(prop, tier, replay):
    t0 = time.time()
    rng = random.Random(seed())
    wd = workdir(prop + "-" + tier)
    known = load_known()
    tags = {"C17", "C01", "C02"}
    if replay:
        cases = [json.load(open(replay))]
        res = validate_sharded("Trace_Mux", cases, wd, "replay", 1)
        report_mux(prop, tier, tags, res, cases, [], t0, known, "model_checking", [])
        return
    stats, gen = mux_generate(tier, wd, rng, ["MC_MuxImpl_q", "MC_MuxImpl_fault"])
    cases = c17_cases(tier, rng) + reject_cases(rng, "rej")
    # histories of the model in which the stream fails during write_sample calls, replayed
    for cfg, mcs in gen:
        if cfg != "MC_MuxImpl_fault":
            continue
        fl = [m for m in mcs if any("fault" in c for c in m["calls"])]
        lim = 600 if tier == "quick" else 20000
        pick = fl if len(fl) <= lim else rng.sample(fl, lim)
        if not pick:
            raise ToolError("vacuity: MC_MuxImpl_fault produced no history with a failing stream")
        for i, m in enumerate(pick):
            cases.append(model_case_to_harness(m, i, rng, 3, 0, name="mcfault"))
    # both arithmetic profiles: overflow checks on (dev) and off (release)
    res = validate_sharded("Trace_Mux", cases, wd, "deg-debug", 6 if tier == "quick" else 12, profile="debug")
    res2 = validate_sharded("Trace_Mux", cases, wd, "deg-release", 6 if tier == "quick" else 12, profile="release")
    res["fails"] += res2["fails"]
    for k in ("events", "runs", "states"):
        res[k] += res2[k]
    report_mux(prop, tier, tags, res, cases, stats, t0, known, "model_checking", ["MC_MuxImpl_q", "MC_MuxImpl_fault"])


# ----------------------------------------------------------------------------------------
# reader family (C03 C09 C12 C15 C18): spec-rendered files -> real reader -> Trace_Read

def gen_mc(spec, cfg, wd, tier, timeout=3000, need_actions=(), coverage=True):
    r = tlc_mc(spec, cfg, wd, workers=8 if tier == "quick" else 14, timeout=timeout, coverage=coverage)
    if not coverage:
        need_actions = ()
    if r["violated"]:
        raise ToolError("model %s violates %s:\n%s" % (cfg, r["violated"], r["tail"][-2500:]))
    if not r["ok"]:
        raise ToolError("TLC failed on %s:\n%s" % (cfg, r["tail"][-2500:]))
    for a in need_actions:
        if r["actions"].get(a, 0) == 0:
            raise ToolError("vacuity: action %s never taken in %s" % (a, cfg))
    st = {"cfg": cfg, "states": r["states"], "distinct": r["distinct"], "depth": r["depth"], "cases": len(r["cases"]),
          "actions": r["actions"], "wall": round(r["wall"], 1)}
    return st, r["cases"]


def report_read(prop, tier, res, cases, stats, t0, known, level, rule, nontrivial, extra_cov=None):
    idx = by_id(cases)
    viol, kn = [], []
    for f in res["fails"]:
        k = match_known(prop, f, known)
        text = "%s %s (run %s, trace line %s)" % (f["what"], json.dumps(f["detail"])[:300], f["run"], f["line"])
        if k:
            kn.append(k["what"])
            continue
        c = idx.get(f["run"])
        path = write_replay(prop, f["run"].replace("/", "_"), c if c is not None else {"run": f["run"]})
        viol.append((path, text))
    def brief(c):
        d = {k: v for k, v in c.items() if k not in ("file", "init")}
        d["file_len"] = len(c.get("file", []))
        return d
    cov = {
        "states": max(1, sum(s["distinct"] for s in stats) + res["states"]),
        "transitions": max(1, sum(s["states"] for s in stats) + res["events"]),
        "traces_validated_against_impl": res["runs"],
        "samples": [brief(c) for c in (cases[:1] + cases[-1:])],
        "evaluations": res["runs"],
        "distinct_nontrivial": nontrivial,
        "rule": rule,
        "model_runs": stats,
        "trace_events_validated": res["events"],
        "exhaustive": False,
    }
    if extra_cov:
        cov.update(extra_cov)
    write_evidence(prop, tier, level, cov, time.time() - t0, len(viol),
                   ["TLC and the CommunityModules Json/IOUtils overrides",
                    "the TLA+ transcription of the ISO layouts and semantics (spec/Wire*.tla, Iso.tla, SampleTable.tla, Frag.tla, Meta.tla)",
                    "input files are rendered by the specification (Movie.tla), not by Rust code; the harness only records"]
                   + (["every track fragment carries at most one run (Frag!TrafInDomain: ntrun = 1): the library keeps only the last run "
                       "of a traf (TrafBox.trun is an Option), so track fragments with several runs are outside what this check decides"]
                      if prop == "C09" else []))
    finish(prop, viol, kn)


def distinct_files(cases):
    return len({hashlib.sha1(bytes(c["file"])).hexdigest() for c in cases})


def uniform_cases(tier, rng):
    """uniform table sets (spec/Uniform.tla) with sample counts up to the 2^32 - 1 of the count field"""
    U = (1 << 32) - 1
    cases = []

    def case(n, size, delta, cts, spc, gap, co64):
        ks = sorted(set([0, 1, 2, spc, spc + 1, 2 * spc, 2 * spc + 1, n // 2, max(n - 1, 0), n, n + 1]
                        + [rng.randrange(1, n + 1) for _ in range(4) if n > 0]))
        c = {"id": "uni-%d" % len(cases), "prop": "C03", "uniform": True, "n": big(n), "size": size, "delta": big(delta), "spc": big(spc),
             "gap": gap, "co64": co64, "ks": [big(k) for k in ks if k <= U]}
        if cts is not None:
            c["cts"] = cts
        cases.append(c)
    case(5, 3, 7, None, 2, 0, True)
    case(0, 1, 1, None, 1, 0, True)
    case(U, 1, 1, None, 1 << 22, 0, True)
    case(U, 1, U, -3, 1 << 22, 5, True)
    case(U, 2, 3, 7, (1 << 23) + 1, 0, True)
    case(U - 1, 1, U, 9, 1 << 22, 0, True)
    case(1 << 31, 1, 1000, None, 1 << 21, 0, False)
    case((1 << 31) - 1, 3, 2, -1, (1 << 21) + 1, 7, True)
    case(1 << 16, 5, 0, 1, 1 << 16, 0, False)
    for _ in range(6 if tier == "quick" else 300):
        n = rng.choice([U, U - rng.randrange(3), (1 << 31) + rng.randrange(-2, 3), rng.randrange(1, U), rng.randrange(1, 1 << 20)])
        spc = max(1, n // rng.randrange(1, 1500) + rng.randrange(2))
        case(n, rng.choice([1, 1, 2, 7]), rng.choice([0, 1, 1024, U]), rng.choice([None, None, -1, 5, -(1 << 31), (1 << 31) - 1]),
             spc, rng.choice([0, 0, 3]), True)
    return cases


def uniform_leg(tier, rng, wd, only=None):
    """leg A: the closed form is SampleTable!Sem on every small instance; leg C: the real reader on huge ones"""
    r = tlc_mc("MC_Uniform", "MC_Uniform", wd, workers=4, timeout=600, coverage=False)
    if r["violated"] or not r["ok"]:
        raise ToolError("Uniform: %s\n%s" % (r["violated"], r["tail"][-2000:]))
    st = {"cfg": "MC_Uniform", "states": r["states"], "distinct": r["distinct"], "depth": r["depth"], "cases": 0, "actions": r["actions"],
          "wall": round(r["wall"], 1)}
    cases = only if only is not None else uniform_cases(tier, rng)
    res = validate_sharded("Trace_Uniform", cases, wd, "uniform", 2, runner="uniform-run")
    return st, cases, res


@check("C03")
def c03(prop, tier, replay):
    t0 = time.time()
    rng = random.Random(seed())
    wd = workdir(prop + "-" + tier)
    known = load_known()
    if replay:
        cases = [json.load(open(replay))]
        if cases[0].get("uniform"):
            stu, cases, res = uniform_leg(tier, rng, wd, only=cases)
        else:
            res = validate_sharded("Trace_Read", cases, wd, "replay", 1, runner="read-run")
        report_read(prop, tier, res, cases, [], t0, known, "model_checking", "replay", 2)
        return
    st, mcs = gen_mc("MC_Lookup", "MC_Lookup_q" if tier == "quick" else "MC_Lookup_t", wd, tier, need_actions=("Step",))
    cases = [{"id": "lk-%d" % i, "prop": "C03", "file": c["file"], "n": c["n"], "place": c["place"], "expect_ok": True}
             for i, c in enumerate(mcs)]
    # beyond 4 GiB: huge samples, rendered header-only and read through a sparse stream (offsets and counts for
    # every id, reads only outside 1..n: a sample is up to 2 GiB of zeros)
    stb, big_mcs = gen_mc("MC_LookupBig", "MC_LookupBig", wd, tier, need_actions=("Step",))
    for i, c in enumerate(big_mcs):
        calls = [{"op": "count", "t": 1}] + [{"op": "offset", "t": 1, "k": k} for k in range(0, c["n"] + 3)] \
            + [{"op": "read", "t": 1, "k": k} for k in [0, c["n"] + 1] + list(c.get("small", []))]
        cases.append({"id": "lkbig-%d" % i, "prop": "C03", "file": c["file"], "total": c["total"], "n": c["n"], "place": "sparse",
                      "expect_ok": True, "calls": calls})
    # leg C: large random consistent table sets rendered by the library's own writers
    rp = os.path.join(wd, "random-tables.ndjson")
    nrand = 60 if tier == "quick" else 1500
    mp4v(["tables-gen", str(seed()), str(nrand), rp])
    cases += read_ndjson(rp)
    res = validate_sharded("Trace_Read", cases, wd, "lookup", 6 if tier == "quick" else 16, runner="read-run")
    # uniform table sets with up to 2^32 - 1 samples, judged by the closed form of the semantics (Uniform.tla)
    stu, ucases, ures = uniform_leg(tier, rng, wd)
    cases += ucases
    res["fails"] += ures["fails"]
    for k in ("events", "runs", "states"):
        res[k] += ures[k]
    report_read(prop, tier, res, cases, [st, stb, stu], t0, known, "model_checking",
                "every consistent sample-table set of the bounded space (all chunk compositions, stsc encodings, size vectors, "
                "stts/ctts encodings incl. zero-length runs, sync subsets, placements; n <= %d) rendered to a file by the specification, plus seeded "
                "random large table sets, plus uniform table sets with up to 2^32 - 1 samples (closed form of the semantics, checked "
                "against SampleTable!Sem for n <= 7); distinct = distinct file bytes; non-trivial = at least 2 samples" % (3 if tier == "quick" else 4),
                sum(1 for c in cases if (frombig(c["n"]) if isinstance(c.get("n"), list) else c.get("n", 2)) >= 2),
                {"distinct_files": distinct_files([c for c in cases if "file" in c]) + len(ucases), "exhaustive": True})


def frag_cases(mcs, name, prop="C09"):
    cases = []
    for i, c in enumerate(mcs):
        d = {"id": "%s-%d" % (name, i), "prop": prop, "file": c["file"], "expect_ok": True,
             "info": {k: c[k] for k in ("delivery", "base", "durMode", "ctsMode", "tfdtV", "nfrag", "ntracks", "mdatFirst")}}
        if c["delivery"] == "split":
            d["init"] = c["init"]
        cases.append(d)
    return cases


@check("C09")
def c09(prop, tier, replay):
    t0 = time.time()
    rng = random.Random(seed())
    wd = workdir(prop + "-" + tier)
    known = load_known()
    if replay:
        cases = [json.load(open(replay))]
        res = validate_sharded("Trace_Read", cases, wd, "replay", 1, runner="read-run")
        report_read(prop, tier, res, cases, [], t0, known, "model_checking", "replay", 2)
        return
    # leg A: the library's fragment lookup (transcribed) against the C09 semantics on abstract tracks
    ra = tlc_mc("MC_FragLookup", "MC_FragLookup" if tier == "quick" else "MC_FragLookup_t", wd, workers=6 if tier == "quick" else 14, timeout=3000)
    if ra["violated"] or not ra["ok"]:
        raise ToolError("FragLookup model: %s\n%s" % (ra["violated"], ra["tail"][-2000:]))
    if ra["actions"].get("Step", 0) == 0:
        raise ToolError("vacuity: FragLookup Step never taken")
    sta = {"cfg": "MC_FragLookup", "states": ra["states"], "distinct": ra["distinct"], "depth": ra["depth"], "cases": 0,
           "actions": ra["actions"], "wall": round(ra["wall"], 1)}
    st, mcs = gen_mc("MC_Frag", "MC_Frag_q" if tier == "quick" else "MC_Frag_t", wd, tier, need_actions=("Render",))
    st2, mcs2 = gen_mc("MC_Frag", "MC_Frag_trex", wd, tier, need_actions=("Render",))
    # duration sources that change from fragment to fragment; media data before the moof
    st3, mcs3 = gen_mc("MC_Frag", "MC_Frag_mix", wd, tier, need_actions=("Render",))
    st4, mcs4 = gen_mc("MC_Frag", "MC_Frag_mf", wd, tier, need_actions=("Render",))
    # track fragments without a run; two track fragments of one track in one moof
    st5, mcs5 = gen_mc("MC_Frag", "MC_Frag_extra", wd, tier, need_actions=("Render",))
    cases = frag_cases(mcs, "fr") + frag_cases(mcs2, "frtrex") + frag_cases(mcs3, "frmix") + frag_cases(mcs4, "frmf") + frag_cases(mcs5, "frx")
    # a media segment that does not start at position 0 of its stream (moof-relative addressing only:
    # explicit base offsets are absolute positions of the rendered file)
    # movie fragment boxes with 64-bit size headers (the moof-relative base is the start of the box)
    stl, lay = gen_mc("MC_Layout", "MC_Layout_frag1", wd, tier, coverage=False)
    for i, c in enumerate([c for c in lay if len(c["ops"]) == 1 and c["ops"][0]["op"] == "large"]):
        cases.append({"id": "frlarge-%d" % i, "prop": "C09", "file": c["file"], "expect_ok": True,
                      "info": {"delivery": "one", "base": "layout", "durMode": "-", "ctsMode": "-", "tfdtV": 0, "nfrag": 2, "ntracks": 1, "mdatFirst": False}})
    stl2, lay2 = gen_mc("MC_Layout", "MC_Layout_fragsplit1", wd, tier, coverage=False)
    for i, c in enumerate([c for c in lay2 if len(c["ops"]) == 1 and c["ops"][0]["op"] == "large"]):
        cases.append({"id": "frlarges-%d" % i, "prop": "C09", "file": c["file"], "init": c["init"], "expect_ok": True,
                      "info": {"delivery": "split", "base": "layout", "durMode": "-", "ctsMode": "-", "tfdtV": 0, "nfrag": 2, "ntracks": 1, "mdatFirst": False}})
    shifted = [dict(c, id=c["id"] + "-at", seg_pos=big(rng.choice([1, 8, 1000, 4096]))) for c in cases
               if c.get("init") and c["info"]["base"] in ("moof", "none")]
    cases += shifted[:: (4 if tier == "quick" else 1)]
    res = validate_sharded("Trace_Read", cases, wd, "frag", 6 if tier == "quick" else 16, runner="read-run")
    report_read(prop, tier, res, cases, [sta, st, st2, st3, st4, st5, stl, stl2], t0, known, "model_checking",
                "fragmented movies: fragment structures (1-3 fragments, 1-2 tracks, empty runs, late tracks) x 6 base-offset modes x "
                "3 duration modes (+ 3 modes that change the source from fragment to fragment) x 3 composition-offset modes x 32/64-bit tfdt x "
                "movie-level defaults x media data after / before the moof x 2 deliveries, rendered by the "
                "specification; distinct = distinct file bytes; non-trivial = more than one fragment or track",
                sum(1 for c in cases if c["info"]["nfrag"] > 1 or c["info"]["ntracks"] > 1),
                {"distinct_files": distinct_files(cases), "exhaustive": True})


def layout_cases(mcs, name):
    seen, cases = set(), []
    ref = next((c["file"] for c in mcs if not c["ops"]), None)
    group_ref = {}
    for c in mcs:
        h = hashlib.sha1(bytes(c["file"])).hexdigest()
        if h in seen:
            continue
        seen.add(h)
        cases.append({"id": "%s-%d" % (name, len(cases)), "prop": "C12", "file": c["file"], "expect_ok": True,
                      "ops": c["ops"], "base": c["base"]})
        if c.get("init"):
            cases[-1]["init"] = c["init"]
        # layouts made only of swaps below the movie header's own children hold the same boxes with the
        # same stored offsets as the reference layout (children of moov excluded: the order of the tracks
        # is part of the structure; top-level swaps, 64-bit headers and spare bytes move the media data)
        if c["ops"] and all(o["op"] == "swap" and len(o["path"]) >= 2 for o in c["ops"]) and ref is not None and not c.get("init"):
            cases[-1]["ref_file"] = ref
        # one box inserted into a container below the movie header: wherever among its siblings it is put, the
        # same boxes are there (and the movie header keeps its size, so the stored offsets are the same too)
        if len(c["ops"]) == 1 and c["ops"][0]["op"] in ("edts", "mehd", "free", "unk") and c["ops"][0]["path"][:1] == [2] and not c.get("init"):
            key = json.dumps({k: v for k, v in c["ops"][0].items() if k != "at"}, sort_keys=True)
            if key in group_ref:
                cases[-1]["ref_file"] = group_ref[key]
            else:
                group_ref[key] = c["file"]
    return cases


def sim_mc(spec, cfg, wd, num, timeout=1800):
    r = tlc_mc(spec, cfg, wd, workers=8, timeout=timeout, simulate="num=%d" % num, coverage=False)
    if r["violated"]:
        raise ToolError("model %s violates %s (simulation):\n%s" % (cfg, r["violated"], r["tail"][-2500:]))
    st = {"cfg": cfg + " (simulate num=%d)" % num, "states": max(r["states"], len(r["cases"])), "distinct": max(r["distinct"], len(r["cases"])),
          "depth": r["depth"], "cases": len(r["cases"]), "actions": r["actions"], "wall": round(r["wall"], 1)}
    return st, r["cases"]


@check("C12")
def c12(prop, tier, replay):
    t0 = time.time()
    wd = workdir(prop + "-" + tier)
    known = load_known()
    if replay:
        cases = [json.load(open(replay))]
        res = validate_sharded("Trace_Read", cases, wd, "replay", 1, runner="read-run")
        report_read(prop, tier, res, cases, [], t0, known, "model_checking", "replay", 2)
        return
    stats, cases = [], []
    for b in ("plain", "plaineof", "plainurl", "frag", "fragmf", "fragboth", "fragdef", "fragemsg", "fragsplit", "meta"):
        if not os.path.exists(os.path.join(SPEC, "MC_Layout_%s1.cfg" % b)):
            continue
        st, mcs = gen_mc("MC_Layout", "MC_Layout_%s1" % b, wd, tier, coverage=False)
        kinds = {o["op"] for c in mcs for o in c["ops"]}
        if not {"free", "unk", "swap", "large", "spare"} <= kinds | ({"swap"} if b.startswith("frag") else set()):
            raise ToolError("vacuity: layout operation kinds %s never applied in %s" % ({"free", "unk", "swap", "large", "spare"} - kinds, b))
        stats.append(st)
        cases += layout_cases(mcs, "ly1" + b)
        if not os.path.exists(os.path.join(SPEC, "MC_Layout_%s3.cfg" % b)):
            continue
        st, mcs = sim_mc("MC_Layout", "MC_Layout_%s3" % b, wd, 250 if tier == "quick" else 6000)
        stats.append(st)
        cases += layout_cases(mcs, "lyN" + b)
    res = validate_sharded("Trace_Read", cases, wd, "layout", 6 if tier == "quick" else 16, runner="read-run")
    report_read(prop, tier, res, cases, stats, t0, known, "model_checking",
                "physical layouts of fixed logical movies (2-track sample-table movie, fragmented movie with the media data after / before "
                "each moof): every single "
                "applicable layout operation (free/unknown insertion with 32- and 64-bit headers at every position of every iterating container, sibling swaps, 64-bit "
                "headers, spare bytes) exhaustively, and seeded random sequences of up to 3 operations; distinct = distinct file bytes; "
                "non-trivial = at least one operation applied",
                sum(1 for c in cases if len(c["ops"]) >= 1), {"distinct_files": distinct_files(cases)})


@check("C18")
def c18(prop, tier, replay):
    t0 = time.time()
    wd = workdir(prop + "-" + tier)
    known = load_known()
    if replay:
        cases = [json.load(open(replay))]
        res = validate_sharded("Trace_Read", cases, wd, "replay", 1, runner="read-run")
        report_read(prop, tier, res, cases, [], t0, known, "model_checking", "replay", 2)
        return
    st, mcs = gen_mc("MC_Meta", "MC_Meta_q" if tier == "quick" else "MC_Meta_t", wd, tier, coverage=False)
    cases = []
    for i, c in enumerate(mcs):
        info = {k: c[k] for k in ("title", "year", "poster", "summary", "unk", "shape", "order")}
        cases.append({"id": "meta-%d" % i, "prop": "C18", "file": c["file"], "expect_ok": True, "meta": True,
                      "calls": [{"op": "meta"}, {"op": "count", "t": 1}, {"op": "read", "t": 1, "k": 1}, {"op": "meta"}], "info": info})
    res = validate_sharded("Trace_Read", cases, wd, "meta", 6 if tier == "quick" else 16, runner="read-run")
    report_read(prop, tier, res, cases, [st], t0, known, "model_checking",
                "movies with iTunes-style metadata: item subsets x encodings (text / 4-byte binary / malformed years, empty and 300-byte "
                "payloads, multi-byte UTF-8) x unknown items x handler types x meta with/without version-flags word x item order x "
                "missing ilst/meta/udta, rendered by the specification; distinct = distinct file bytes; non-trivial = at least one of the four items present",
                sum(1 for c in cases if any(c["info"][k] != "absent" for k in ("title", "year", "poster", "summary"))),
                {"distinct_files": distinct_files(cases), "exhaustive": True})


# ----------------------------------------------------------------------------------------
# C15: history independence of reads (schedules) + determinism of muxing / parsing

def canned(name):
    return list(open(os.path.join(REPO, "tests/samples", name), "rb").read())


def probe_counts(files, wd):
    """sample counts per track of each file, taken from a default session (also validated)."""
    cases = [dict(f, id="probe-%d" % i, prop="C15") for i, f in enumerate(files)]
    cp, tp = os.path.join(wd, "probe-cases.ndjson"), os.path.join(wd, "probe-trace.ndjson")
    write_ndjson(cp, cases)
    mp4v(["read-run", cp, tp])
    counts, cur = {}, None
    for ev in read_ndjson(tp):
        if ev["e"] == "reset":
            cur = int(ev["id"].split("-")[1])
            counts[cur] = {}
        elif ev["e"] == "count" and ev["res"] == "ok":
            counts[cur][ev["t"]] = ev["n"]
    return counts, cases


def resolve(call, counts):
    n = counts.get(call["t"], 3)
    k = {"0": 0, "1": 1, "n": n, "n+1": n + 1}[call["k"]]
    return {"op": call["op"], "t": call["t"], "k": k}


@check("C15")
def c15(prop, tier, replay):
    t0 = time.time()
    rng = random.Random(seed())
    wd = workdir(prop + "-" + tier)
    known = load_known()
    if replay:
        c = json.load(open(replay))
        spec, runner = ("Trace_Mux", "mux-run") if "calls" in c and "cfg" in c else ("Trace_Read", "read-run")
        res = validate_sharded(spec, [c], wd, "replay", 1, runner=runner)
        report_read(prop, tier, res, [c], [], t0, known, "model_checking", "replay", 2)
        return
    # (1) input files: spec-rendered (sample tables, fragments) and third-party canned files
    stl, lk = gen_mc("MC_Lookup", "MC_Lookup_q", wd, tier, coverage=False)
    stf, fr = gen_mc("MC_Frag", "MC_Frag_q", wd, tier, coverage=False)
    # (two interleaved tracks; and a file whose media data box extends "to the end of the file": the reader's size() ends before it)
    pick_lk = [c for c in lk if c["place"] == "inter" and c["n"] == 3][:2] + [c for c in lk if c["place"] == "eof" and c["n"] == 3][:1]
    pick_fr = [c for c in fr if c["ntracks"] == 2 and c["nfrag"] == 2][:2]
    files = [{"file": c["file"], "expect_ok": True} for c in pick_lk]
    for c in pick_fr:
        d = {"file": c["file"], "expect_ok": True}
        if c["delivery"] == "split":
            d["init"] = c["init"]
        files.append(d)
    # table sets with many stsc runs (random chunk sizes), rendered by the library's writers
    tp = os.path.join(wd, "many-runs.ndjson")
    mp4v(["tables-gen", str(seed() + 17), "40", tp])
    many = [c for c in read_ndjson(tp) if c["n"] >= 30][:2]
    files += [{"file": c["file"], "expect_ok": True} for c in many]
    files.append({"file": canned("minimal.mp4"), "expect_ok": True})
    files.append({"file": canned("minimal_fragment.m4s"), "init": canned("minimal_init.mp4"), "expect_ok": True})
    # a file in which one track's first chunk lies outside the file (its read fails after the seek):
    # the other track's answers must not depend on that failure having happened
    for c in [c for c in lk if c["place"] == "inter" and c["n"] in (2, 3)][:3]:
        b = bytes(c["file"])
        i = b.rfind(b"co64")
        if i > 0:
            dmg = bytearray(b)
            dmg[i + 12:i + 20] = (len(b) - 1).to_bytes(8, "big")
            files.append({"file": list(dmg), "expect_ok": True, "tri": True})
    # a movie header that says duration 0 while its tracks have (different) durations: the movie-level
    # accessors keep answering from the movie header, the same on every reader instance
    for c in [c for c in lk if c["place"] == "inter" and c["n"] == 3][:1]:
        b = bytearray(c["file"])
        i = bytes(b).find(b"mvhd")
        if i > 0:
            b[i + 20:i + 24] = b"\0\0\0\0"
            files.append({"file": list(b), "expect_ok": True})
    # a media segment opened against a reader that has samples (and answered queries) itself
    for c in [c for c in fr if c["delivery"] == "split" and c["base"] == "moof" and c["nfrag"] == 2][:2]:
        whole = c["init"] + c["file"]
        files.append({"file": c["file"], "init": whole, "expect_ok": True, "parent": True})
    counts, probes = probe_counts(files, wd)
    # (2) all schedules up to the bound (TLC), several per reader session, + long random schedules
    sts, sch = gen_mc("MC_Reader", "MC_Reader_q" if tier == "quick" else "MC_Reader_t", wd, tier, coverage=False)
    scheds = [c["calls"] for c in sch]
    if tier == "thorough" and len(scheds) > 12000:
        scheds = rng.sample(scheds, 12000)
    group = 8
    cases = list(probes)
    for fi, f in enumerate(files):
        f = dict(f)
        tri, parent = f.pop("tri", False), f.pop("parent", False)
        tids = sorted(t for t in counts[fi] if t > 0)
        reads = [{"op": "read", "t": t, "k": k} for t in tids for k in range(1, min(counts[fi][t], 3) + 1)]
        if tri:
            # every ordered triple of reads: a failing read between two reads of neighbouring samples included
            calls = [c for a in reads for b in reads for d in reads for c in (a, b, d)]
            cases.append(dict(f, id="tri-%d" % fi, prop="C15", calls=calls))
        if parent:
            # the parent answers a query; the derived reader is asked the same one first
            for j, q in enumerate(reads + [dict(r, op="offset") for r in reads]):
                pc = [rng.choice(reads) for _ in range(3)] + [q]
                cases.append(dict(f, id="par-%d-%d" % (fi, j), prop="C15", parent_calls=pc, calls=[q] + reads + [dict(q, op="offset")]))
        order = list(range(len(scheds)))
        rng.shuffle(order)
        for g in range(0, len(order), group):
            calls = [resolve(c, counts[fi]) for i in order[g:g + group] for c in scheds[i]]
            calls = [{"op": "movie"}] + calls + [{"op": "movie"}]
            cases.append(dict(f, id="sch-%d-%d" % (fi, g // group), prop="C15", calls=calls))
        for r in range(6 if tier == "quick" else 60):
            calls = []
            for _ in range(200):
                t = rng.choice([0, 1, 1, 1, 2, 2, 3, 9])
                n = counts[fi].get(t, 3)
                calls.append({"op": rng.choice(["read", "read", "offset", "count"]), "t": t,
                              "k": rng.choice([0, 1, n, n + 1, n + 2, rng.randint(0, n + 1)])})
            cases.append(dict(f, id="rnd-%d-%d" % (fi, r), prop="C15", calls=calls))
    # two readers over different files with the same track and sample ids (the samples distributed
    # differently over the fragments), used alternately on one thread: the other reader is asked first
    def shape_key(c):
        return (c["base"], c["durMode"], c["ctsMode"], c["tfdtV"], c["delivery"], c["mdatFirst"])
    groups = {}
    for c in fr:
        if c["ntracks"] == 1 and c["delivery"] == "one":
            groups.setdefault(shape_key(c), []).append(c)
    npair = 0
    for key in sorted(groups, key=str):
        g = groups[key]
        if len(g) < 2 or npair >= (12 if tier == "quick" else 200):
            continue
        for a in g:
            for b in g:
                if a is b or json.dumps(a["st"]) == json.dumps(b["st"]):
                    continue
                n = sum(max(0, tf[1]) for fg in a["st"] for tf in fg if tf[0] == 1)
                calls = [{"op": op, "t": 1, "k": k} for k in range(0, n + 2) for op in ("read", "offset")]
                cases.append({"file": a["file"], "expect_ok": True, "other": {"file": b["file"]}, "id": "two-%d" % npair, "prop": "C15", "calls": calls})
                npair += 1
    # files whose tables are NOT mutually consistent (the specification does not say what their samples are, only
    # that the answers do not depend on the history): every call compared with the same call on a fresh reader
    def patched(b, tag, at, new):
        i = b.find(tag)
        if i < 0:
            return None
        d = bytearray(b)
        d[i + at:i + at + len(new)] = new
        return list(d)
    H = (1 << 31).to_bytes(4, "big")
    dmg = []
    for c in [c for c in lk if c["place"] == "asc" and c["n"] == 3]:
        b = bytes(c["file"])
        i = b.find(b"ctts")
        if i > 0 and int.from_bytes(b[i + 8:i + 12], "big") == 2 and len(dmg) < 2:
            # two composition-offset runs of 2^31 samples each (their sum does not fit 32 bits)
            dmg.append(patched(bytes(patched(b, b"ctts", 12, H)), b"ctts", 20, H))
        j = b.find(b"stts")
        if j > 0 and int.from_bytes(b[j + 8:j + 12], "big") == 2 and len(dmg) < 4:
            dmg.append(patched(bytes(patched(b, b"stts", 12, H)), b"stts", 20, H))
    if len(dmg) < 2:
        raise ToolError("vacuity: no table set with two ctts / stts runs to damage")
    sched = [1, 1, 2, 3, 1, 2, 0, 4, 3, 3]
    for i, f in enumerate(d for d in dmg if d):
        calls = [{"op": op, "t": 1, "k": k} for k in sched for op in ("read", "offset")] + [{"op": "count", "t": 1}]
        cases.append({"file": f, "expect_ok": False, "fresh": True, "id": "dmg-%d" % i, "prop": "C15", "calls": calls})
    res = validate_sharded("Trace_Read", cases, wd, "sched", 6 if tier == "quick" else 16, runner="read-run")
    # (3) determinism: muxing the same history twice, opening the same bytes twice (events `twice` of the mux suite)
    rp = os.path.join(wd, "random-cases.ndjson")
    nmux = 150 if tier == "quick" else 4000
    mp4v(["mux-gen", str(seed()), str(nmux), rp])
    mcases = read_ndjson(rp)
    # two of the histories are muxed the second time in another second of the wall clock
    for c in [c for c in mcases if c.get("twice", True)][:2]:
        c["twice_gap_ms"] = 1100
    mres = validate_sharded("Trace_Mux", mcases, wd, "det", 6 if tier == "quick" else 16)
    mres["fails"] = [f for f in mres["fails"] if f["prop"] == "C15"]
    res["fails"] += mres["fails"]
    for k in ("events", "runs", "states"):
        res[k] += mres[k]
    report_read(prop, tier, res, cases + mcases, [stl, stf, sts], t0, known, "model_checking",
                "reader sessions: every call schedule up to the bound over (read|offset|count) x tracks {0,1,2[,9]} x ids {0,1,n,n+1}, "
                "eight schedules per session, plus random 200-call schedules, on spec-rendered and canned files; every result validated "
                "against the function of (file, arguments); muxing histories run twice / files opened twice for determinism; "
                "non-trivial = a session with at least two calls or a muxing history with at least two samples",
                sum(1 for c in cases if len(c.get("calls", [])) >= 2) + len(mcases), {})


# ----------------------------------------------------------------------------------------
# C11: crash-point (cut) enumeration

def moov_first(file):
    """ftyp | mdat | moov (as the muxer writes it) -> ftyp | moov | mdat, the 32-bit chunk offsets moved along
    (input construction only: nothing here judges the library)"""
    b = bytes(file)
    boxes, o = [], 0
    while o + 8 <= len(b):
        sz = int.from_bytes(b[o:o + 4], "big")
        if sz < 8 or o + sz > len(b):
            return list(b)
        boxes.append((b[o + 4:o + 8], o, sz))
        o += sz
    d = {t: (o, sz) for t, o, sz in boxes}
    if [t for t, _, _ in boxes] != [b"ftyp", b"mdat", b"moov"]:
        return list(b)
    mo, ms = d[b"moov"]
    moov = bytearray(b[mo:mo + ms])
    i = moov.find(b"stco")
    while i > 0:
        n = int.from_bytes(moov[i + 8:i + 12], "big")
        for k in range(n):
            e = i + 12 + 4 * k
            moov[e:e + 4] = (int.from_bytes(moov[e:e + 4], "big") + ms).to_bytes(4, "big")
        i = moov.find(b"stco", i + 4)
    fo, fs = d[b"ftyp"]
    do, ds = d[b"mdat"]
    return list(b[fo:fo + fs] + bytes(moov) + b[do:do + ds])


@check("C11")
def c11(prop, tier, replay):
    t0 = time.time()
    rng = random.Random(seed())
    wd = workdir(prop + "-" + tier)
    known = load_known()
    if replay:
        cases = [json.load(open(replay))]
        res = validate_sharded("Trace_Trunc", cases, wd, "replay", 1, runner="trunc-run")
        report_read(prop, tier, res, cases, [], t0, known, "fault_enumeration", "replay", 2)
        return
    stats, files = [], []
    # spec-rendered layouts: movie header first / last, with free boxes, 64-bit headers; fragmented; metadata
    for b in ("plain", "frag"):
        st, mcs = gen_mc("MC_Layout", "MC_Layout_%s1" % b, wd, tier, coverage=False)
        stats.append(st)
        def pick(pred, n=1):
            return [c for c in mcs if pred(c)][:n]
        sel = pick(lambda c: len(c["ops"]) == 0)
        sel += pick(lambda c: len(c["ops"]) == 1 and c["ops"][0]["op"] == "swap" and c["ops"][0]["path"] == [])
        sel += pick(lambda c: len(c["ops"]) == 1 and c["ops"][0]["op"] == "free" and c["ops"][0]["path"] == [] and c["ops"][0]["len"] == 5, 2)
        sel += pick(lambda c: len(c["ops"]) == 1 and c["ops"][0]["op"] == "large", 2 if tier == "quick" else 12)
        if tier == "thorough":
            sel += rng.sample(mcs, min(60, len(mcs)))
        for c in sel:
            files.append({"file": c["file"], "kind": "spec-rendered " + b, "ops": c["ops"]})
    # fragmented, the source of the durations changing from fragment to fragment (a prefix that ends
    # before a later fragment must not change what earlier fragments say)
    st, mx = gen_mc("MC_Frag", "MC_Frag_mix", wd, tier, coverage=False)
    stats.append(st)
    # (with a movie-level default of 0 and of 7; with sequence numbers and decode times that decrease from fragment to fragment)
    for dm, order, tx in (("mixA", "asc", []), ("mixA", "asc", [7]), ("mixA", "desc", [7]), ("mixB", "asc", []), ("mixB", "desc", []), ("mixC", "asc", [7])):
        pick = [{"file": c["file"], "kind": "spec-rendered fragmented %s %s trex %s" % (dm, order, tx)} for c in mx
                if c["delivery"] == "one" and c["durMode"] == dm and c["base"] == "moof" and not c["mdatFirst"] and c["nfrag"] >= 2
                and c["order"] == order and c["trexDur"] == tx][:1 if tier == "quick" else 3]
        if not pick:
            raise ToolError("vacuity: no fragmented file %s %s %s" % (dm, order, tx))
        files += pick
    # runs of unequal length whose total is a multiple of the number of fragments (3+1, 4+4+1): a prefix has
    # another total and another number of fragments
    for shape in ([[[1, 3]], [[1, 1]]], [[[1, 4]], [[1, 4]], [[1, 1]]], [[[1, 2]], [[1, 0]], [[1, 0]], [[1, 2]]]):
        pick = [c for c in mx if c["st"] == [[list(tf) for tf in fg] for fg in shape] and c["delivery"] == "one" and c["base"] == "moof" and not c["mdatFirst"] and c["order"] == "asc"]
        if not pick:
            raise ToolError("vacuity: no fragmented file with the runs %s" % shape)
        files += [{"file": c["file"], "kind": "spec-rendered fragmented, unequal runs"} for c in pick[:1 if tier == "quick" else 6]]
    # movie header last and another table than the chunk offsets as the last box of the last track
    st, sw = gen_mc("MC_Layout", "MC_Layout_plainswap2", wd, tier, coverage=False)      # one track, every pair of swaps
    stats.append(st)
    seen_last = set()
    for c in sw:
        tops = [o for o in c["ops"] if o["op"] == "swap" and o["path"] == []]
        inner = [o for o in c["ops"] if o["op"] == "swap" and len(o["path"]) == 5]
        if len(c["ops"]) == 2 and tops and inner:
            key = json.dumps(inner[0], sort_keys=True)
            if key not in seen_last and inner[0]["j"] == 7 and len(seen_last) < (8 if tier == "quick" else 40):      # ... moved to the last place
                seen_last.add(key)
                files.append({"file": c["file"], "kind": "spec-rendered, media data first, sample tables reordered", "ops": c["ops"]})
    st, mcs = gen_mc("MC_Meta", "MC_Meta_q", wd, tier, coverage=False)
    stats.append(st)
    full = [c for c in mcs if c["shape"] in ("mdir", "mdirqt") and c["title"] != "absent" and c["year"] == "text2008" and c["poster"] != "absent"][:2]
    files += [{"file": c["file"], "kind": "spec-rendered metadata"} for c in full]
    # muxer outputs (movie header last)
    rp, fp = os.path.join(wd, "mux-cases.ndjson"), os.path.join(wd, "mux-files.ndjson")
    mp4v(["mux-gen", str(seed()), str(12 if tier == "quick" else 120), rp])
    small = [c for c in read_ndjson(rp) if 1 <= sum(1 for x in c["calls"] if x["op"] == "write") <= 40]
    write_ndjson(rp, small[:4 if tier == "quick" else 40])
    mp4v(["mux-file", rp, fp])
    files += [{"file": f["file"], "kind": "muxer output " + f["id"]} for f in read_ndjson(fp) if len(f["file"]) < 20000]
    # a sample of 70 000 bytes (a different read path in some implementations), movie header first
    bigcase = {"id": "big1", "seed": 1, "cfg": {"major": s4("isom"), "minor": big(512), "brands": [s4("isom")], "timescale": big(1000)}, "pos": [],
           "calls": [{"op": "add", "conf": full_conf("avc", 1000, rng)}] +
                    [{"op": "write", "t": 1, "len": ln, "fill": 0x5A + i, "dur": big(400), "cts": 0, "sync": i == 0, "valid": True} for i, ln in enumerate([300, 70000, 5])]}
    write_ndjson(rp, [bigcase])
    mp4v(["mux-file", rp, fp])
    for f in read_ndjson(fp):
        files.append({"file": moov_first(f["file"]), "kind": "muxer output, 70 000-byte sample, movie header first", "step": 11})
    # third-party files
    files.append({"file": canned("minimal.mp4"), "kind": "canned minimal.mp4"})
    files.append({"file": canned("extended_audio_object_type.mp4"), "kind": "canned extended_audio_object_type.mp4"})
    if tier == "thorough":
        files.append({"file": canned("big_buck_bunny_metadata.m4v"), "kind": "canned big_buck_bunny_metadata.m4v", "step": 7})
    cases = [dict(f, id="cut-%d" % i) for i, f in enumerate(files)]
    res = validate_sharded("Trace_Trunc", cases, wd, "trunc", 6 if tier == "quick" else 16, runner="trunc-run")
    ncuts = sum((len(c["file"]) + c.get("step", 1) - 1) // c.get("step", 1) for c in cases)
    report_read(prop, tier, res, cases, stats, t0, known, "fault_enumeration",
                "every cut position 0..len-1 of every file of the corpus (spec-rendered layouts: movie header first/last, free boxes, "
                "64-bit headers, fragmented, with metadata; muxer outputs; canned third-party files): open the prefix, read every sample id "
                "of the complete file; distinct = (file, cut) pairs; all are non-trivial",
                ncuts, {"evaluations": ncuts, "files": len(cases), "cuts": ncuts,
                        "samples": [{"kind": c["kind"], "len": len(c["file"])} for c in cases[:6]]})


# ----------------------------------------------------------------------------------------
# C10: fault enumeration (every stream call index x fault kind) + transfer chunkings

@check("C10")
def c10(prop, tier, replay):
    t0 = time.time()
    rng = random.Random(seed())
    wd = workdir(prop + "-" + tier)
    known = load_known()
    if replay:
        cases = [json.load(open(replay))]
        res = validate_sharded("Trace_Stream", cases, wd, "replay", 1, runner="fault-run")
        report_read(prop, tier, res, cases, [], t0, known, "fault_enumeration", "replay", 2)
        return
    # leg A: the loop / environment model
    r = tlc_mc("MC_Stream", "MC_Stream", wd, workers=4, timeout=600)
    if r["violated"] or not r["ok"]:
        raise ToolError("Stream model: %s\n%s" % (r["violated"], r["tail"][-2000:]))
    stats = [{"cfg": "MC_Stream", "states": r["states"], "distinct": r["distinct"], "depth": r["depth"], "cases": 0,
              "actions": r["actions"], "wall": round(r["wall"], 1)}]
    for a in ("Transfer", "Skip", "Interrupt", "Fault", "Complete"):
        if r["actions"].get(a, 0) == 0:
            raise ToolError("vacuity: Stream action %s never taken" % a)
    cases = []
    # reading sessions: spec-rendered (plain, fragmented, metadata) and canned files
    st, mcs = gen_mc("MC_Layout", "MC_Layout_plain1", wd, tier, coverage=False)
    stats.append(st)
    base = [c for c in mcs if len(c["ops"]) == 0][:1] + [c for c in mcs if len(c["ops"]) == 1 and c["ops"][0]["op"] == "large"][:1]
    st, fr = gen_mc("MC_Layout", "MC_Layout_frag1", wd, tier, coverage=False)
    stats.append(st)
    base += [c for c in fr if len(c["ops"]) == 0][:1]
    # ... with event message boxes (version 0 and 1: C strings read byte by byte) in front of the moofs
    st, em = gen_mc("MC_Layout", "MC_Layout_fragemsg0", wd, tier, coverage=False)
    stats.append(st)
    base += em[:1]
    # ... whose data references name an external location (a non-empty C string in dref/url)
    st, ur = gen_mc("MC_Layout", "MC_Layout_plainurl0", wd, tier, coverage=False)
    stats.append(st)
    base += ur[:1]
    st, me = gen_mc("MC_Meta", "MC_Meta_q", wd, tier, coverage=False)
    stats.append(st)
    base += [c for c in me if c["shape"] == "mdirqt" and c["title"] != "absent" and c["poster"] != "absent"][:1]
    for c in base:
        cases.append({"file": c["file"], "kind": "read spec-rendered"})
    cases.append({"file": canned("minimal.mp4"), "kind": "read canned minimal.mp4", "stride": 1 if tier == "thorough" else 3})
    # an audio configuration with an escaped object type (a third configuration byte is read)
    cases.append({"file": canned("extended_audio_object_type.mp4"), "kind": "read canned extended_audio_object_type.mp4"})
    # ... and the same with a tabulated sampling frequency (index 3 instead of the 24-bit escape), two channels
    ext = bytes(canned("extended_audio_object_type.mp4"))
    i = ext.find(bytes([0x05, 0x81, 0x1a, 0xf8, 0x9e, 0x01]))
    if i < 0:
        raise ToolError("extended_audio_object_type.mp4: audio configuration not found")
    cases.append({"file": list(ext[:i + 3] + bytes([0xf8, 0x86, 0x40]) + ext[i + 6:]),
                  "kind": "read extended_audio_object_type.mp4, escaped object type with frequency index 3"})
    # muxing sessions
    rp = os.path.join(wd, "mux-cases.ndjson")
    mp4v(["mux-gen", str(seed()), str(40 if tier == "quick" else 400), rp])
    mux = [c for c in read_ndjson(rp) if 2 <= sum(1 for x in c["calls"] if x["op"] == "write") <= (12 if tier == "quick" else 40)]
    chosen, want = [], set(KINDS)
    for c in mux:
        kinds = {x["conf"]["kind"] for x in c["calls"] if x["op"] == "add"}
        if kinds & want or len(chosen) < 3:
            want -= kinds
            chosen.append(c)
        if not want and len(chosen) >= 3:
            break
    if want:
        raise ToolError("vacuity: no muxing session with media kinds %s" % sorted(want))
    for c in (chosen if tier == "quick" else (chosen + mux)[:40]):
        c["kind"] = "mux " + c["id"]
        cases.append(c)
    # a muxing session beyond 4 GiB (the media data header is rewritten in its 64-bit form at the end)
    bigcalls = [{"op": "add", "conf": full_conf("avc", 1000, rng)}] + \
        [{"op": "write", "t": 1, "len": 1500 << 20, "fill": 0x30 + k, "dur": big(1000), "cts": 0, "sync": k == 0, "valid": True} for k in range(3)]
    cases.append({"kind": "mux 4.4 GiB", "big": True, "patterns": 1 if tier == "quick" else 2, "seed": 1, "pos": [],
                  "cfg": {"major": s4("isom"), "minor": big(512), "brands": [s4("isom")], "timescale": big(1000)}, "calls": bigcalls})
    cases = [dict(c, id="io-%d" % i) for i, c in enumerate(cases)]
    res = validate_sharded("Trace_Stream", cases, wd, "fault", 6 if tier == "quick" else 16, runner="fault-run")
    nrun = res["events"] - 2 * len(cases)
    report_read(prop, tier, res, cases, stats, t0, known, "fault_enumeration",
                "for every session (reading spec-rendered and canned files incl. every sample; muxing random histories): the k-th stream "
                "call fails for every k (any call / read / seek / write) and the k-th write accepts zero bytes for every k, plus five "
                "short-transfer / interrupt patterns down to one byte per call; distinct = (session, fault kind, k); all non-trivial",
                max(2, nrun), {"evaluations": max(1, nrun), "sessions": len(cases),
                               "samples": [{"kind": c["kind"]} for c in cases[:8]]})


# ----------------------------------------------------------------------------------------
# C06 / C07 / C08: adversarial inputs, shared execution (cached per source tree, seed and tier)

def tree_hash():
    h = hashlib.sha256()
    for root in (os.path.join(REPO, "src"), os.path.join(HARNESS, "src"), SPEC, os.path.join(VERIF, "bin")):
        for dp, dn, fn in sorted(os.walk(root)):
            dn.sort()
            for f in sorted(fn):
                if f.endswith((".rs", ".tla", ".cfg", ".py", ".toml")) or "." not in f:
                    p = os.path.join(dp, f)
                    try:
                        h.update(p.encode())
                        h.update(open(p, "rb").read())
                    except OSError:
                        pass
    for p in (os.path.join(REPO, "Cargo.toml"), os.path.join(REPO, "Cargo.lock")):
        if os.path.exists(p):
            h.update(open(p, "rb").read())
    return h.hexdigest()[:24]


def robust_bases(tier, wd, rng):
    stats, bases = [], []
    st, pl = gen_mc("MC_Layout", "MC_Layout_plain1", wd, tier, coverage=False)
    stats.append(st)
    b0 = [c for c in pl if len(c["ops"]) == 0][0]
    bases.append({"file": b0["file"], "fields": b0["fields"], "kind": "spec-rendered two-track movie"})
    sw = [c for c in pl if len(c["ops"]) == 1 and c["ops"][0]["op"] == "swap" and c["ops"][0]["path"] == []][0]
    bases.append({"file": sw["file"], "fields": sw["fields"], "kind": "spec-rendered, media data before movie header"})
    st, fr = gen_mc("MC_Layout", "MC_Layout_frag1", wd, tier, coverage=False)
    stats.append(st)
    f0 = [c for c in fr if len(c["ops"]) == 0][0]
    bases.append({"file": f0["file"], "fields": f0["fields"], "kind": "spec-rendered fragmented movie"})
    st, fd = gen_mc("MC_Layout", "MC_Layout_fragdef0", wd, tier, coverage=False)
    stats.append(st)
    bases.append({"file": fd[0]["file"], "fields": fd[0]["fields"], "kind": "spec-rendered fragmented movie, run without per-sample sizes (tfhd default size)"})
    st, fe = gen_mc("MC_Layout", "MC_Layout_fragemsg0", wd, tier, coverage=False)
    stats.append(st)
    bases.append({"file": fe[0]["file"], "fields": fe[0]["fields"], "kind": "spec-rendered fragmented movie with event message boxes"})
    st, fds = gen_mc("MC_Layout", "MC_Layout_fragdefsplit0", wd, tier, coverage=False)
    stats.append(st)
    bases.append({"file": fds[0]["file"], "init": fds[0]["init"], "fields": fds[0]["fields"],
                  "kind": "spec-rendered media segment (run without per-sample sizes) against its init segment"})
    st, fsp = gen_mc("MC_Layout", "MC_Layout_fragsplit0", wd, tier, coverage=False)
    stats.append(st)
    bases.append({"file": fsp[0]["file"], "init": fsp[0]["init"], "fields": fsp[0]["fields"],
                  "kind": "spec-rendered media segment starting with a segment type box, against its init segment"})
    st, sp = gen_mc("MC_Frag", "MC_Frag_q", wd, tier, coverage=False)
    stats.append(st)
    s0 = [c for c in sp if c["delivery"] == "split" and c["ntracks"] == 2 and c["nfrag"] == 2 and c["durMode"] == "per" and c["ctsMode"] == "v0"][0]
    bases.append({"file": s0["file"], "init": s0["init"], "fields": [], "kind": "spec-rendered media segment against its init segment"})
    st, me = gen_mc("MC_Meta", "MC_Meta_q", wd, tier, coverage=False)
    stats.append(st)
    m0 = [c for c in me if c["shape"] == "mdir" and c["title"] != "absent" and c["year"] == "text2008" and c["poster"] != "absent" and c["unk"] == "between"][0]
    bases.append({"file": m0["file"], "fields": m0["fields"], "kind": "spec-rendered movie with iTunes metadata"})
    m1 = [c for c in me if c["shape"] == "mdta" and c["title"] != "absent"][0]
    bases.append({"file": m1["file"], "fields": m1["fields"], "kind": "spec-rendered movie, metadata with unknown handler"})
    m2 = [c for c in me if c["shape"] == "mdir" and c["year"] == "bin0" and c["hdr"] == "small" and c["mmeta"] == "none"][0]
    bases.append({"file": m2["file"], "fields": m2["fields"], "kind": "spec-rendered movie, metadata with an empty binary year"})
    m3 = [c for c in me if c["shape"] == "mdir" and c["year"] == "int0" and c["hdr"] == "small" and c["mmeta"] == "none" and c["unk"] == "kids"][0]
    bases.append({"file": m3["file"], "fields": m3["fields"], "kind": "spec-rendered movie, metadata with an empty integer-typed year, items with further children"})
    # more track fragments than samples
    st, fx = gen_mc("MC_Frag", "MC_Frag_extra", wd, tier, coverage=False)
    stats.append(st)
    x0 = [c for c in fx if c["st"] == [[[1, 2]], [[1, 0]], [[1, -1]]] and c["delivery"] == "one" and c["base"] == "moof" and c["durMode"] == "per" and not c["mdatFirst"] and c["order"] == "asc"][0]
    bases.append({"file": x0["file"], "fields": [], "kind": "spec-rendered fragmented movie, three track fragments holding two samples"})
    x1 = [c for c in fx if c["st"] == [[[1, 2], [1, 1]], [[1, 1]]] and c["delivery"] == "one" and c["base"] == "moof" and c["durMode"] == "per" and not c["mdatFirst"] and c["order"] == "asc"][0]
    bases.append({"file": x1["file"], "fields": [], "kind": "spec-rendered fragmented movie, two track fragments of one track in one moof"})
    bases.append({"file": canned("minimal.mp4"), "fields": [], "kind": "canned minimal.mp4"})
    bases.append({"file": canned("minimal_fragment.m4s"), "init": canned("minimal_init.mp4"), "fields": [], "kind": "canned fragment against canned init"})
    bases.append({"file": canned("extended_audio_object_type.mp4"), "fields": [], "kind": "canned extended_audio_object_type.mp4", "region": [0, 64]})
    # muxer outputs cover the hevc / vp9 / ttxt / aac sample entries
    rp, fp = os.path.join(wd, "mux-cases.ndjson"), os.path.join(wd, "mux-files.ndjson")
    mp4v(["mux-gen", str(seed() + 5), "60", rp])
    want, chosen = {"hevc", "vp9", "ttxt", "aac", "avc"}, []
    for c in read_ndjson(rp):
        kinds = {x["conf"]["kind"] for x in c["calls"] if x["op"] == "add"}
        nw = sum(1 for x in c["calls"] if x["op"] == "write")
        if kinds & want and 1 <= nw <= 30:
            want -= kinds
            chosen.append(c)
        if not want:
            break
    write_ndjson(rp, chosen)
    mp4v(["mux-file", rp, fp])
    for f in read_ndjson(fp):
        if len(f["file"]) < 6000:
            bases.append({"file": f["file"], "fields": [], "kind": "muxer output " + f["id"]})
    if tier == "thorough":
        bbb = canned("big_buck_bunny_metadata.m4v")
        bases.append({"file": bbb, "fields": [], "kind": "canned big_buck_bunny_metadata.m4v", "region": [0, 2048]})
    for i, b in enumerate(bases):
        n = len(b["file"])
        lo, hi = b.pop("region", [0, min(n, 4096)])
        quick = tier == "quick"
        from_spec = bool(b["fields"])
        if not b["fields"]:
            # no field map from the specification: every 4-aligned word of the region
            b["fields"] = [[o, 4] for o in range(lo, max(lo, hi - 4), 4)]
        b["plan"] = {"seed": seed() * 1000 + i, "region": [lo, hi],
                     "single": {"widths": [1, 4] if quick else [1, 2, 4, 8], "stride": 1},
                     "field_singles": from_spec,
                     "pairs": 2500 if quick else 60000, "havoc": 2500 if quick else 60000}
    return stats, bases


def run_robust_base(idx, base, wd, profile):
    bp = os.path.join(wd, "base-%d.ndjson" % idx)
    tp = os.path.join(wd, "robust-%s-%d.ndjson" % (profile, idx))
    write_ndjson(bp, [base])
    exe = build_harness(profile)
    rc, out = run([exe, "robust-run", bp, tp], timeout=5400)
    # A worker that dies (abort on a failed allocation, stack overflow, kill) or is ended by the
    # watchdog (code 97: an execution that does not return) loses the rest of its base.  The input in
    # flight is identified (re-run with per-execution echo), recorded as a crash / hang event, and
    # the base is run again without it -- up to 6 times -- so that the other executions are still made.
    crash_events, skip, crash_input, crashed = [], [], None, False
    hangs = 0
    for attempt in range(6):
        if rc == 0 or hangs >= 2:
            break
        hangs += rc == 97
        crashed = True
        if rc == 97:
            try:
                hev = json.load(open(tp + ".hang"))
            except (OSError, ValueError):
                raise ToolError("worker of base %d ended with the watchdog's code but left no record" % idx)
            crash_events.append(hev)
            crash_input = crash_input or hev.get("input")
            skip.append(hev["digest"])
        else:
            cur = tp + ".cur"
            env = {"MP4V_EACH": "1", "MP4V_CUR": cur}
            if skip:
                env["MP4V_SKIP"] = ",".join(skip)
            rc2, out2 = run([exe, "robust-run", bp, tp + ".each"], timeout=5400, env=env)
            last = [l for l in out2.split("\n") if l.startswith("EACH ")][-1:] or ["EACH ?"]
            try:
                ci = json.load(open(cur))
            except (OSError, ValueError):
                ci = None
            crash_input = crash_input or ci
            am = re.search(r"memory allocation of (\d+) bytes failed", out + out2)
            crash_events.append({"e": "crash", "signal": rc, "last": last[0], "alloc": min(int(am.group(1)), 0x7fffffff) if am else 0})
            if last[0] == "EACH ?":
                break
            skip.append(last[0].split()[1])
        rc, out = run([exe, "robust-run", bp, tp], timeout=5400, env={"MP4V_SKIP": ",".join(skip)})
    if crashed:
        # a still-dying worker may have left a partial last line
        good = []
        for l in open(tp, errors="replace"):
            try:
                json.loads(l)
                good.append(l if l.endswith("\n") else l + "\n")
            except ValueError:
                pass
        with open(tp, "w") as f:
            f.writelines(good)
            f.write(json.dumps({"e": "reset", "id": "base-%d" % idx}) + "\n")
            for ev in crash_events:
                f.write(json.dumps(ev) + "\n")
    st = {}
    for l in out.strip().split("\n"):
        if l.startswith("{"):
            st = json.loads(l)
    if rc == 0 and "phases" in st and base.get("plan"):
        pl, ph = base["plan"], st["phases"]
        if (pl.get("pairs", 0) > 0 and len(base.get("fields", [])) >= 2 and ph[2] == 0) or (pl.get("havoc", 0) > 0 and ph[3] == 0) \
                or (pl.get("field_singles") and ph[1] == 0):
            raise ToolError("vacuity: a planned mutation phase executed nothing on base %d: %s" % (idx, ph))
    r = tlc_trace("Trace_Total", tp, wd, timeout=1800)
    if not r["accepted"]:
        raise ToolError("Trace_Total did not consume the trace of base %d:\n%s" % (idx, r["raw_tail"][:2000]))
    cases = {}
    if r["fails"]:
        # inputs of the anomalous executions, for replay files
        for ev in read_ndjson(tp):
            if ev.get("e") == "case":
                cases[json.dumps(ev["what"])] = ev
    return {"idx": idx, "profile": profile, "cases": st.get("cases", 0), "events": r["distinct"], "fails": r["fails"],
            "inputs": cases, "crashed": crashed, "crash_input": crash_input if crashed else None}


def run_amplify(param, wd, profile):
    """one member of the amplification family (harness/src/amplify.rs), measured and judged like any other execution"""
    tp = os.path.join(wd, "amplify-%s-%s.ndjson" % (profile, param.replace(",", "_")))
    exe = build_harness(profile)
    rc, out = run([exe, "amplify-run", tp, param], timeout=900)
    if rc == 97:
        hev = json.load(open(tp + ".hang"))
        hev["input"] = []
        with open(tp, "w") as f:
            f.write(json.dumps({"e": "reset", "id": "amplify-" + param}) + "\n")
            f.write(json.dumps(hev) + "\n")
    elif rc != 0:
        am = re.search(r"memory allocation of (\d+) bytes failed", out)
        with open(tp, "w") as f:
            f.write(json.dumps({"e": "reset", "id": "amplify-" + param}) + "\n")
            f.write(json.dumps({"e": "crash", "signal": rc, "last": "amplify " + param, "alloc": min(int(am.group(1)), 0x7fffffff) if am else 0}) + "\n")
    r = tlc_trace("Trace_Total", tp, wd, timeout=600)
    if not r["accepted"]:
        raise ToolError("Trace_Total did not consume the trace of amplify %s:\n%s" % (param, r["raw_tail"][:2000]))
    return {"idx": -1, "profile": profile, "cases": 1, "events": r["distinct"], "fails": r["fails"], "inputs": {}, "crashed": rc != 0,
            "amplify": param}


def robust_suite(tier):
    key = "%s-%s-%d" % (tree_hash(), tier, seed())
    cdir = os.path.join(OUT, "cache")
    os.makedirs(cdir, exist_ok=True)
    cp = os.path.join(cdir, "robust-" + key + ".json")
    if os.path.exists(cp) and not os.environ.get("VERIF_NOCACHE"):
        log("[robust suite: reusing the run of the identical source tree %s]" % key)
        return json.load(open(cp))
    t0 = time.time()
    rng = random.Random(seed())
    wd = workdir("robust-" + tier)
    stats, bases = robust_bases(tier, wd, rng)
    # leg A: the parsing-loop model (progress, linear work, bounded allocation, termination)
    r = tlc_mc("Parse", "MC_Parse", wd, workers=4, timeout=600)
    if r["violated"] or not r["ok"]:
        raise ToolError("Parse model: %s\n%s" % (r["violated"], r["tail"][-2000:]))
    stats.append({"cfg": "MC_Parse", "states": r["states"], "distinct": r["distinct"], "depth": r["depth"], "cases": 0,
                  "actions": r["actions"], "wall": round(r["wall"], 1)})
    build_harness("debug")
    build_harness("release")
    jobs = [(i, b, p) for p in ("debug", "release") for i, b in enumerate(bases)]
    with ThreadPoolExecutor(max_workers=12) as ex:
        rs = list(ex.map(lambda j: run_robust_base(j[0], j[1], wd, j[2]), jobs))
    # amplification family: T tracks whose parameter-set records all reach into one shared region
    amps = ["90,30,hevc", "90,30,avc", "30,60,hevc", "12,254,avc", "40,300,esds", "100,64,esds", "40,300,esds4", "20000,400000,fragwalk", "100,6000,tracksmoofs", "2000,0,drefwalk", "4000,0,moofwalk"] + ["80,200,tbl-" + t for t in ("stss", "stts", "ctts", "stsc", "stco", "co64", "stsz")] + (["90,200,hevc", "90,200,avc", "90,2000,esds", "60000,600000,fragwalk"] if tier == "thorough" else [])
    rs += [run_amplify(a, wd, p) for p in ("debug", "release") for a in amps]
    res = {"stats": stats, "bases": [{"kind": b["kind"], "len": len(b["file"]), "fields": len(b["fields"]), "plan": {k: v for k, v in b["plan"].items()}} for b in bases],
           "executions": sum(x["cases"] for x in rs), "events": sum(x["events"] for x in rs), "fails": [], "wall": time.time() - t0}
    for x in rs:
        for f in x["fails"]:
            f = dict(f)
            f["base"] = x["idx"]
            f["profile"] = x["profile"]
            if f["what"] not in ("panic in the reader API (see the case events)", "operation budget exceeded (see the case events)") or x["crashed"]:
                inp = None
                d = f.get("detail")
                if isinstance(d, list):
                    for cand in d:
                        ev = x["inputs"].get(json.dumps(cand))
                        if ev:
                            inp = ev
                            break
                if x.get("amplify"):
                    f["input"] = {"amplify": x["amplify"]}
                    res["fails"].append(f)
                    continue
                f["input"] = {"file": inp["input"], "init": bases[x["idx"]].get("init"), "mode": inp["mode"], "kind": bases[x["idx"]]["kind"],
                              "what": inp["what"]} if inp else None
                if not inp and x.get("crash_input"):
                    f["input"] = {"file": x["crash_input"], "init": bases[x["idx"]].get("init"), "mode": "frag" if bases[x["idx"]].get("init") else "open",
                                  "kind": bases[x["idx"]]["kind"], "what": "worker crash"}
                res["fails"].append(f)
    json.dump(res, open(cp, "w"))
    return res


def robust_check(prop, tier, replay, level, text_rule):
    t0 = time.time()
    known = load_known()
    if replay:
        wd = workdir(prop + "-replay")
        c = json.load(open(replay))
        fails = []
        if "amplify" in c:
            for p in ("debug", "release"):
                fails += run_amplify(c["amplify"], wd, p)["fails"]
        else:
            base = {"file": c["file"], "kind": "replay", "fields": [], "plan": {"seed": 1, "region": [0, 0], "single": {"widths": [], "stride": 1}, "pairs": 0, "havoc": 0}}
            if c.get("init"):
                base["init"] = c["init"]
            for p in ("debug", "release"):
                fails += run_robust_base(0, base, wd, p)["fails"]
        res = {"fails": [dict(f, input=c, base=0, profile="?") for f in fails], "executions": 2, "events": 2, "stats": [], "bases": [], "wall": 0}
    else:
        res = robust_suite(tier)
    viol, kn = [], []
    for f in res["fails"]:
        if f["prop"] != prop:
            continue
        k = match_known(prop, f, known)
        text = "%s %s (base %s, %s build)" % (f["what"], json.dumps(f["detail"])[:300], f.get("base"), f.get("profile"))
        if k:
            kn.append(k["what"])
            continue
        name = hashlib.sha1(json.dumps(f.get("detail")).encode()).hexdigest()[:10]
        if isinstance(f.get("input"), dict) and "amplify" in f["input"]:
            name = "amplify-" + f["input"]["amplify"].replace(",", "-")
        path = write_replay(prop, "robust-" + name, f.get("input") or {"note": "worker crash; see trace", "detail": f.get("detail")})
        viol.append((path, text))
    cov = {"evaluations": max(1, res["executions"]), "distinct_nontrivial": max(2, res["executions"] - 2 * len(res["bases"])),
           "rule": text_rule, "samples": res["bases"][:12] or [{"replay": True}],
           "states": max(1, sum(s["distinct"] for s in res["stats"]) + res["events"]),
           "transitions": max(1, sum(s["states"] for s in res["stats"]) + res["events"]),
           "traces_validated_against_impl": 2 * len(res["bases"]), "model_runs": res["stats"],
           "profiles": ["debug (overflow checks)", "release (wrapping)"], "suite_wall_s": round(res["wall"], 1)}
    write_evidence(prop, tier, level, cov, time.time() - t0, len(viol),
                   ["TLC / Json / IOUtils", "the budgeted stream and the counting allocator of the harness (observation only)",
                    "base images and their field maps come from the specification (Movie.tla, Iso!FieldMapOf) or are third-party files"])
    finish(prop, viol, kn)


RULE_ROBUST = ("adversarial inputs: for each base image (spec-rendered plain / media-first / fragmented / init+segment / metadata / unknown-handler "
               "metadata, canned files, muxer outputs with every sample-entry kind) every byte offset of the header region x widths x boundary values "
               "{0,1,2,7,8,9,15,16,17,255,256,len-1,len,len+1,2^15,2^31-1,2^31,2^32-1,2^64-1,...}, seeded pairs over the specification's field map, "
               "and byte-level havoc; each executed through open (or open-as-fragment) and every accessor, in a debug and a release build; "
               "distinct = distinct mutated inputs (mutations equal to the base are skipped); all but the unmodified bases are non-trivial")


@check("C06")
def c06(prop, tier, replay):
    robust_check(prop, tier, replay, "exploration", RULE_ROBUST)


@check("C07")
def c07(prop, tier, replay):
    robust_check(prop, tier, replay, "exploration", RULE_ROBUST + "; measured per execution: stream operations and bytes under a 64n+4096 operation budget, wall-clock guard 3 s")


@check("C08")
def c08(prop, tier, replay):
    robust_check(prop, tier, replay, "exploration", RULE_ROBUST + "; measured per execution: peak live heap bytes and largest single allocation request")


# ----------------------------------------------------------------------------------------
# C16: code and enumeration mappings over their whole domains

@check("C16")
def c16(prop, tier, replay):
    t0 = time.time()
    wd = workdir(prop + "-" + tier)
    known = load_known()
    r = tlc_mc("MC_Enums", "MC_Enums", wd, workers=2, timeout=600, coverage=False)
    if r["violated"] or not r["ok"] or len(r["cases"]) != 1:
        raise ToolError("Enums: %s\n%s" % (r["violated"], r["tail"][-2000:]))
    tp = os.path.join(wd, "tables.json")
    json.dump(r["cases"][0], open(tp, "w"))
    trace = os.path.join(wd, "domain-trace.ndjson")
    mp4v(["domain-run", tp, trace, "1" if (tier == "thorough" or replay) else "0"], profile="release", timeout=3000)
    res = tlc_trace("Trace_Domain", trace, wd)
    if not res["accepted"]:
        raise ToolError("Trace_Domain did not consume the trace:\n" + res["raw_tail"][:2000])
    evs = [e for e in read_ndjson(trace) if e["e"] == "domain"]
    viol, kn = [], []
    for f in res["fails"]:
        k = match_known(prop, f, known)
        if k:
            kn.append(k["what"])
            continue
        path = write_replay(prop, "domain-%d" % f["line"], {"detail": f["detail"]})
        viol.append((path, "%s %s" % (f["what"], json.dumps(f["detail"])[:300])))
    total = sum(frombig(e["checked"]) for e in evs)
    cov = {"evaluations": total, "distinct_nontrivial": total,
           "rule": "every input of the complete finite domain of each mapping (2^32 numeric codes for BoxType, FourCC, handler codes, DataType and 16.16 "
                   "fixed point; 2^16 language codes, profile/constraint pairs and 8.8 raw values; all u8 for the AAC enumerations; all [a-z]^3 "
                   "languages), compared with the table exported by TLC from Enums.tla; the FourCC text round trip visits every 61st code in the "
                   "quick tier and all 2^32 in the thorough tier; every input is distinct and counts",
           "samples": [{"mapping": e["name"], "checked": frombig(e["checked"]), "mismatches": e["mismatches"]} for e in evs],
           "states": r["distinct"] + res["distinct"], "transitions": r["states"] + res["states"],
           "traces_validated_against_impl": 1, "exhaustive": tier == "thorough"}
    write_evidence(prop, tier, "exploration", cov, time.time() - t0, len(viol),
                   ["TLC (proves the table-level statements: injectivity, language and fixed-point round trips) and Json/IOUtils",
                    "the entry-by-entry comparison loop of the harness against the exported tables"])
    finish(prop, viol, kn)


# ----------------------------------------------------------------------------------------
# C04 / C05: box codecs against the reference encoder / decoder

def wire_family(prop, tier, replay):
    t0 = time.time()
    rng = random.Random(seed())
    wd = workdir(prop + "-" + tier)
    known = load_known()
    if replay:
        cases = [json.load(open(replay))]
        stats = []
    else:
        r = tlc_mc("MC_Wire", "MC_Wire", wd, workers=8, timeout=1800, coverage=False)
        if r["violated"]:
            raise ToolError("the reference encoder/decoder violates %s:\n%s" % (r["violated"], r["tail"][-2500:]))
        if not r["ok"]:
            raise ToolError("TLC failed on MC_Wire:\n" + r["tail"][-2500:])
        cases = r["cases"]
        stats = [{"cfg": "MC_Wire", "states": r["states"], "distinct": r["distinct"], "depth": r["depth"], "cases": len(cases),
                  "actions": r["actions"], "wall": round(r["wall"], 1)}]
        types = {c["t"] for c in cases}
        if len(types) < 48:
            raise ToolError("vacuity: only %d box types generated" % len(types))
    for i, c in enumerate(cases):
        c.setdefault("id", "wire-%d" % i)
    shards = 1 if replay else 6
    parts = [cases[i::shards] for i in range(shards)]

    def one(i):
        cp, tp = os.path.join(wd, "wire-cases-%d.ndjson" % i), os.path.join(wd, "wire-trace-%d.ndjson" % i)
        write_ndjson(cp, parts[i])
        mp4v(["wire-run", cp, tp])
        r = tlc_trace("Trace_Wire", tp, wd)
        if not r["accepted"]:
            raise ToolError("Trace_Wire did not consume the trace:\n" + r["raw_tail"][:2000])
        return i, r

    build_harness("debug")
    with ThreadPoolExecutor(max_workers=shards) as ex:
        rs = list(ex.map(one, range(shards)))
    viol, kn, events, states = [], [], 0, 0
    for i, r in rs:
        events += r["distinct"]
        states += r["distinct"]
        for f in r["fails"]:
            if f["prop"] != prop:
                continue
            k = match_known(prop, f, known)
            if k:
                kn.append(k["what"])
                continue
            d = f["detail"]
            ident = d[0] if isinstance(d, list) and d and isinstance(d[0], list) else d
            cidx = ident[2] if isinstance(ident, list) and len(ident) >= 3 and isinstance(ident[2], int) else None
            case = parts[i][cidx] if cidx is not None and cidx < len(parts[i]) else {"detail": d}
            path = write_replay(prop, "%s-%s" % (case.get("t", "x").strip(), hashlib.sha1(json.dumps(case.get("v", d)).encode()).hexdigest()[:8]), case)
            viol.append((path, "%s %s" % (f["what"], json.dumps(d)[:200])))
    per_type = {}
    for c in cases:
        per_type[c["t"]] = per_type.get(c["t"], 0) + 1
    cov = {"states": max(1, sum(s["distinct"] for s in stats) + states), "transitions": max(1, sum(s["states"] for s in stats) + events),
           "traces_validated_against_impl": len(cases),
           "samples": [{"t": c["t"], "mode": c.get("mode"), "v": c["v"], "enc_len": len(c["enc"])} for c in (cases[:1] + cases[len(cases) // 2:len(cases) // 2 + 1])],
           "evaluations": len(cases), "distinct_nontrivial": len({hashlib.sha1(bytes(c["enc"])).hexdigest() for c in cases}),
           "rule": "for each of the 48 box types every shape (version 0/1, every combination of field-gating flag bits, optional children "
                   "present/absent, list lengths 0..2, 0..3 for tables) x three value assignments (zeros, all ones within the wire width, every "
                   "field a distinct pattern); distinct = distinct reference encodings; all non-trivial",
           "cases_per_type": per_type, "model_runs": stats, "exhaustive": True}
    write_evidence(prop, tier, "model_checking", cov, time.time() - t0, len(viol),
                   ["TLC and Json/IOUtils", "the TLA+ transcription of the ISO/IEC 14496-12/-14/-15, vpcC, 3GPP tx3g, DASH emsg and iTunes layouts (Wire*.tla), "
                    "checked for Dec(Enc(v)) = v on the same space", "the harness's generic Debug-output reader that makes the library's decoded values observable"])
    finish(prop, viol, kn)


@check("C04")
def c04(prop, tier, replay):
    wire_family(prop, tier, replay)


@check("C05")
def c05(prop, tier, replay):
    wire_family(prop, tier, replay)
