# Per-property checks.  Every verdict is computed by TLC from the TLA+ specification:
#   leg A  model checking of the implementation-shaped model against the property-level spec
#   leg B  TLC-generated behaviours replayed through the real library
#   leg C  randomized behaviours of the real library validated against the trace specification
import json, os, random, time, hashlib
from concurrent.futures import ThreadPoolExecutor
from vlib import *

CHECKS = {}


def check(*ids):
    def deco(fn):
        for i in ids:
            CHECKS[i] = fn
        return fn
    return deco


def big(n):
    out = []
    while n > 0:
        out.append(n & 255)
        n >>= 8
    return out[::-1]


def frombig(a):
    n = 0
    for d in a:
        n = n * 256 + d
    return n


def s4(s):
    return [ord(c) for c in s]


# ----------------------------------------------------------------------------------------
# mux family (C01 C02 C13 C14 C15 C17)

KINDS = ["avc", "aac", "hevc", "ttxt", "vp9"]


def full_conf(kind, timescale, rng, lang=None):
    ttype = {"aac": "audio", "ttxt": "subtitle"}.get(kind, "video")
    c = {"kind": kind, "ttype": ttype, "timescale": big(timescale), "lang": s4(lang or "und"),
         "w": 0, "h": 0, "sps": [], "pps": [], "profile": 0, "freq": 0, "chan": 0, "bitrate": []}
    if ttype == "video":
        c["w"], c["h"] = rng.choice([(320, 240), (1920, 1080), (1, 1), (65535, 2)])
    if kind == "avc":
        c["sps"] = [0x67, rng.choice([66, 77, 100]), rng.randrange(256), rng.randrange(256)] + [rng.randrange(256) for _ in range(rng.choice([0, 1, 8]))]
        c["pps"] = [0x68, 0xEE, 0x3C, 0x80][: rng.choice([1, 4])]
    if kind == "aac":
        c["profile"], c["freq"], c["chan"], c["bitrate"] = rng.choice([2, 2, 5, 29, 34, 42]), rng.randrange(13), rng.randrange(1, 8), big(rng.choice([0, 96000, 128000]))
    return c


def widen(v, scale):
    """Map a value of the width-scaled model (limit 256) to the real width (limit 2^32):
    v = a*128 + b with b in (-64, 64]  ->  a*2^31 + b.  Additive for the model's alphabets."""
    if not scale:
        return v
    a, b = divmod(v, 128)
    if b > 64:
        a, b = a + 1, b - 128
    return a * (1 << 31) + b


def model_case_to_harness(mc, idx, rng, movie_ts, startpos, scale=False, name="mc"):
    calls = []
    ti = 0
    for c in mc["calls"]:
        if c["op"] == "add":
            kind = KINDS[(idx + ti) % len(KINDS)]
            ti += 1
            calls.append({"op": "add", "conf": full_conf(kind, widen(frombig(c["conf"]["timescale"]), False), rng)})
        elif c["op"] == "write":
            ln = widen(c["len"], scale)
            calls.append({"op": "write", "t": c["t"], "len": ln, "fill": (idx * 1009 + len(calls) * 31) & 0xFFFFFF,
                          "dur": big(widen(frombig(c["dur"]), scale)), "cts": c["cts"], "sync": c["sync"],
                          "valid": c["valid"]})
    return {"id": "%s-%d" % (name, idx), "seed": idx,
            "cfg": {"major": s4("isom"), "minor": big(512), "brands": [s4("isom"), s4("iso2")],
                    "timescale": big(movie_ts)},
            "pos": big(widen(startpos, scale)), "calls": calls}


def write_ndjson(path, items):
    with open(path, "w") as f:
        for it in items:
            f.write(json.dumps(it, separators=(",", ":")))
            f.write("\n")


def read_ndjson(path):
    return [json.loads(l) for l in open(path) if l.strip()]


def validate_sharded(spec, cases, wd, name, shards, profile="debug", runner="mux-run", timeout=1500):
    """Run the cases through the real library (harness, pure recording) and validate the traces with TLC."""
    if not cases:
        return {"fails": [], "events": 0, "runs": 0, "states": 0, "accepted": True}
    shards = max(1, min(shards, len(cases)))
    parts = [cases[i::shards] for i in range(shards)]
    jobs = []
    for i, part in enumerate(parts):
        cp = os.path.join(wd, "%s-cases-%d.ndjson" % (name, i))
        tp = os.path.join(wd, "%s-trace-%d.ndjson" % (name, i))
        write_ndjson(cp, part)
        jobs.append((cp, tp))

    def one(job):
        cp, tp = job
        st = mp4v([runner, cp, tp], profile=profile, timeout=timeout)
        r = tlc_trace(spec, tp, wd, timeout=timeout)
        r["events"] = st.get("events", 0)
        r["trace"] = tp
        return r

    build_harness(profile)
    with ThreadPoolExecutor(max_workers=shards) as ex:
        rs = list(ex.map(one, jobs))
    out = {"fails": [], "events": 0, "runs": len(cases), "states": 0, "accepted": True, "tails": []}
    for r in rs:
        out["fails"] += r["fails"]
        out["events"] += r["events"]
        out["states"] += r["distinct"]
        if not r["accepted"]:
            out["accepted"] = False
            out["tails"].append(r["raw_tail"])
    if not out["accepted"]:
        raise ToolError("trace validation did not consume the whole trace (%s):\n%s" % (name, "\n".join(out["tails"])[:3000]))
    return out


def by_id(cases):
    return {c["id"]: c for c in cases}


MUX_LEVEL_TEXT = "model_checking"


def mux_generate(tier, wd, rng, cfgs):
    """Leg A: model-check MuxImpl against Mux; returns (mc stats list, model cases)."""
    stats, cases = [], []
    for cfg in cfgs:
        r = tlc_mc("MC_MuxImpl", cfg, wd, workers=8 if tier == "quick" else 14, timeout=3000)
        if r["violated"]:
            # the MODEL violates the property: a defect of the specified algorithm (or of the model)
            raise ToolError("model %s violates %s:\n%s" % (cfg, r["violated"], r["tail"][-2500:]))
        if not r["ok"]:
            raise ToolError("TLC failed on %s:\n%s" % (cfg, r["tail"][-2500:]))
        stats.append({"cfg": cfg, "states": r["states"], "distinct": r["distinct"], "depth": r["depth"],
                      "cases": len(r["cases"]), "actions": r["actions"], "wall": round(r["wall"], 1)})
        for a in ("IStart", "IAddTrack", "IWriteSample", "IRejectWrite", "IWriteEnd"):
            if r["actions"].get(a, 0) == 0:
                raise ToolError("vacuity: action %s never taken in %s" % (a, cfg))
        cases.append((cfg, r["cases"]))
    return stats, cases


def mux_family(prop, tier, replay, tags, with_random=True, mc_cfgs=None, replay_limit=None, scale=False,
               movie_ts=3, startpos=0, nrandom=None, extra_cases=None, level="model_checking"):
    t0 = time.time()
    rng = random.Random(seed())
    wd = workdir(prop + "-" + tier)
    known = load_known()
    if replay:
        cases = [json.load(open(replay))]
        res = validate_sharded("Trace_Mux", cases, wd, "replay", 1)
        report_mux(prop, tier, tags, res, cases, [], t0, known, level, [])
        return
    mc_cfgs = mc_cfgs or (["MC_MuxImpl_q"] if tier == "quick" else ["MC_MuxImpl_small", "MC_MuxImpl_one4"])
    stats, gen = mux_generate(tier, wd, rng, mc_cfgs)
    cases = []
    for cfg, mcs in gen:
        idxs = list(range(len(mcs)))
        lim = replay_limit if replay_limit is not None else (1200 if tier == "quick" else 40000)
        if len(idxs) > lim:
            idxs = sorted(rng.sample(idxs, lim))
        for i in idxs:
            cases.append(model_case_to_harness(mcs[i], i, rng, movie_ts, startpos, scale=scale, name=cfg.replace("MC_MuxImpl_", "mc")))
    if extra_cases:
        cases += extra_cases
    if with_random:
        n = nrandom if nrandom is not None else (120 if tier == "quick" else 6000)
        rp = os.path.join(wd, "random-cases.ndjson")
        mp4v(["mux-gen", str(seed()), str(n), rp])
        cases += read_ndjson(rp)
    res = validate_sharded("Trace_Mux", cases, wd, "mux", 6 if tier == "quick" else 16)
    report_mux(prop, tier, tags, res, cases, stats, t0, known, level, mc_cfgs)


def report_mux(prop, tier, tags, res, cases, stats, t0, known, level, mc_cfgs):
    idx = by_id(cases)
    viol, kn = [], []
    other = 0
    for f in res["fails"]:
        if f["prop"] not in tags:
            other += 1
            continue
        k = match_known(prop, f, known) or match_known(f["prop"], f, known)
        text = "%s: %s %s (run %s, trace line %s)" % (f["prop"], f["what"], json.dumps(f["detail"])[:200], f["run"], f["line"])
        if k:
            kn.append(k["what"])
            continue
        c = idx.get(f["run"])
        path = write_replay(prop, f["run"].replace("/", "_"), c if c is not None else {"run": f["run"]})
        viol.append((path, text))
    if other:
        log("[%d failures tagged with other properties are reported by their own checks]" % other)
    nontrivial = sum(1 for c in cases if sum(1 for x in c["calls"] if x["op"] == "write" and x.get("valid", True)) >= 2)
    samples = [c for c in cases[:1]] + [c for c in cases[-1:]]
    cov = {
        "states": max(1, sum(s["distinct"] for s in stats) + res["states"]),
        "transitions": max(1, sum(s["states"] for s in stats) + res["events"]),
        "traces_validated_against_impl": res["runs"],
        "samples": [{"id": c["id"], "calls": c["calls"][:6]} for c in samples],
        "evaluations": res["runs"],
        "distinct_nontrivial": nontrivial,
        "rule": "muxing histories: every terminal state of the bounded MuxImpl model (or a seeded subset in the quick tier) plus "
                "seeded random histories; distinct by construction (distinct model states / distinct seeds); non-trivial = at least two accepted samples",
        "model_runs": stats,
        "trace_events_validated": res["events"],
        "trace_states": res["states"],
        "failures_tagged_for_other_properties": other,
        "exhaustive": False,
    }
    write_evidence(prop, tier, level, cov, time.time() - t0, len(viol),
                   ["TLC and the CommunityModules Json/IOUtils overrides", "the TLA+ transcription of the ISO layouts (spec/Wire*.tla, Iso.tla)",
                    "the harness only records (no oracle); payloads above 32 bytes are compared through a 64-bit digest"])
    finish(prop, viol, kn)


@check("C01")
def c01(prop, tier, replay):
    mux_family(prop, tier, replay, {"C01"})


@check("C02")
def c02(prop, tier, replay):
    mux_family(prop, tier, replay, {"C02"})
