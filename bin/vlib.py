# Shared machinery of /verif/bin/check: build, TLC drivers, verdicts, evidence.
# python3 stdlib only.
import json, os, re, subprocess, sys, time, hashlib, shutil

VERIF = os.path.dirname(os.path.dirname(os.path.abspath(__file__)))
SPEC = os.path.join(VERIF, "spec")
HARNESS = os.path.join(VERIF, "harness")
OUT = os.path.join(VERIF, "out")
EVID = os.path.join(VERIF, "evidence")
REPLAYS = os.path.join(OUT, "replays")
KNOWN = os.path.join(VERIF, "known-findings.json")
# the repository under test: /repo, or a snapshot of it for background runs (vp run --with-repo)
REPO = os.environ.get("VERIF_REPO") or "/repo"


def link_repo():
    """harness/repo -> the repository under test (path dependency of the harness crate)"""
    link = os.path.join(HARNESS, "repo")
    if os.path.islink(link) and os.readlink(link) == REPO:
        return
    if os.path.islink(link) or os.path.exists(link):
        os.remove(link)
    os.symlink(REPO, link)

TLC_NOISE = re.compile(r"^(TLC2|Running|Warning|\(|Parsing|Semantic|Starting|Implied|Computing|Finished|Progress|Model checking|Linting|Picked|  calculated|  Estimates|  because|  based on)")


class ToolError(Exception):
    pass


def log(*a):
    print(*a, file=sys.stderr, flush=True)


def seed():
    try:
        return int(os.environ.get("VERIF_SEED", "1"))
    except ValueError:
        return 1


def ensure_dirs():
    for d in (OUT, EVID, REPLAYS):
        os.makedirs(d, exist_ok=True)


def run(cmd, timeout=None, cwd=None, env=None, stdin=None):
    e = dict(os.environ)
    if env:
        e.update(env)
    try:
        p = subprocess.run(cmd, cwd=cwd, env=e, timeout=timeout, input=stdin,
                           stdout=subprocess.PIPE, stderr=subprocess.STDOUT, text=True)
    except subprocess.TimeoutExpired as ex:
        raise ToolError("timeout: %s" % " ".join(cmd[:4]))
    return p.returncode, p.stdout


_built = {}


def build_harness(profile="debug"):
    """(Re)build the harness against /repo's current working tree (path dependency)."""
    if profile in _built:
        return _built[profile]
    link_repo()
    t0 = time.time()
    cmd = ["cargo", "build", "--offline", "--quiet"]
    if profile == "release":
        cmd.append("--release")
    env = {"CARGO_NET_OFFLINE": "true"}
    rc, out = run(cmd, cwd=HARNESS, timeout=1200, env=env)
    if rc != 0:
        # a tree that does not compile is a tool error, not a verdict
        raise ToolError("cargo build failed:\n" + out[-3000:])
    exe = os.path.join(HARNESS, "target", profile, "mp4v")
    _built[profile] = exe
    log("[build %s %.1fs]" % (profile, time.time() - t0))
    return exe


def mp4v(args, profile="debug", timeout=1800, env=None):
    exe = build_harness(profile)
    rc, out = run([exe] + args, timeout=timeout, env=env)
    if rc != 0:
        raise ToolError("mp4v %s failed rc=%s:\n%s" % (args[0], rc, out[-2000:]))
    last = [l for l in out.strip().split("\n") if l.startswith("{")]
    return json.loads(last[-1]) if last else {}


def workdir(name):
    d = os.path.join(OUT, "work", name)
    shutil.rmtree(d, ignore_errors=True)
    os.makedirs(d, exist_ok=True)
    return d


# ----------------------------------------------------------------------------------------
# TLC

def tlc_trace(spec, trace_path, wd, timeout=900, xmx="4g"):
    """Validate one ndjson trace against spec/<spec>.tla. Returns dict(fails, notes, states, accepted)."""
    meta = os.path.join(wd, "meta-" + os.path.basename(trace_path))
    env = {"TRACE": trace_path,
           "JAVA_TOOL_OPTIONS": "-Xss1g -Xmx%s -Dtlc2.tool.queue.IStateQueue=StateDeque" % xmx}
    cmd = ["tlc", "-workers", "1", "-metadir", meta, "-cleanup", "-noGenerateSpecTE",
           "-config", os.path.join(SPEC, spec + ".cfg"), os.path.join(SPEC, spec + ".tla")]
    t0 = time.time()
    rc, out = run(cmd, timeout=timeout, env=env, cwd=wd)
    shutil.rmtree(meta, ignore_errors=True)
    res = {"fails": [], "notes": [], "states": 0, "distinct": 0, "depth": 0, "accepted": False,
           "stuck": None, "wall": time.time() - t0, "raw_tail": ""}
    seen = set()
    for line in out.split("\n"):
        line = line.strip()
        if line.startswith('"['):
            try:
                v = json.loads(json.loads(line))
            except Exception:
                continue
            key = json.dumps(v)
            if key in seen:
                continue
            seen.add(key)
            if v[0] == "FAIL":
                res["fails"].append({"line": v[1], "run": v[2], "prop": v[3], "what": v[4], "detail": v[5]})
            elif v[0] == "NOTE":
                res["notes"].append(v)
            elif v[0] == "STUCK":
                res["stuck"] = v
        m = re.match(r"(\d+) states generated, (\d+) distinct states found", line)
        if m:
            res["states"], res["distinct"] = int(m.group(1)), int(m.group(2))
        m = re.match(r"The depth of the complete state graph search is (\d+)", line)
        if m:
            res["depth"] = int(m.group(1))
    errs = [l for l in out.split("\n") if l.startswith("Error:")]
    res["accepted"] = (rc == 0 and not errs and res["stuck"] is None)
    if not res["accepted"]:
        res["raw_tail"] = "\n".join([l for l in out.split("\n") if not TLC_NOISE.match(l)][-40:])
    return res


def count_lines(path):
    n = 0
    with open(path, "rb") as f:
        for _ in f:
            n += 1
    return n


def tlc_mc(spec, cfg, wd, workers=8, timeout=1800, xmx="12g", extra=None, simulate=None, env=None, coverage=True):
    """Model-check spec/<spec>.tla with spec/<cfg>.cfg. Returns dict(ok, states, distinct, depth, cases, coverage, out)."""
    meta = os.path.join(wd, "meta-" + cfg)
    e = {"JAVA_TOOL_OPTIONS": "-Xss512m -Xmx%s" % xmx}
    if env:
        e.update(env)
    cmd = ["tlc", "-workers", str(workers), "-metadir", meta, "-cleanup", "-noGenerateSpecTE",
           "-config", os.path.join(SPEC, cfg + ".cfg")]
    if coverage:
        cmd += ["-coverage", "1"]
    if simulate:
        cmd += ["-simulate", simulate, "-depth", "12", "-seed", str(seed())]
    if extra:
        cmd += extra
    cmd.append(os.path.join(SPEC, spec + ".tla"))
    t0 = time.time()
    rc, out = run(cmd, timeout=timeout, env=e, cwd=wd)
    shutil.rmtree(meta, ignore_errors=True)
    res = {"rc": rc, "states": 0, "distinct": 0, "depth": 0, "cases": [], "wall": time.time() - t0,
           "violated": None, "actions": {}}
    for line in out.split("\n"):
        s = line.strip()
        if s.startswith('"CASE '):
            try:
                res["cases"].append(json.loads(json.loads(s)[5:]))
            except Exception as ex:
                raise ToolError("bad CASE line: %s" % s[:200])
        m = re.match(r"(\d+) states generated, (\d+) distinct states found", s)
        if m:
            res["states"], res["distinct"] = int(m.group(1)), int(m.group(2))
        m = re.match(r"The depth of the complete state graph search is (\d+)", s)
        if m:
            res["depth"] = int(m.group(1))
        m = re.match(r"Error: Invariant (\S+) is violated", s)
        if m:
            res["violated"] = m.group(1)
        m = re.match(r"Error: (Action property|Temporal properties) .*violated", s)
        if m:
            res["violated"] = s
        m = re.match(r"<(\w+) line \d+, col \d+ to line \d+, col \d+ of module (\w+)>: (\d+):(\d+)", s)
        if m:
            res["actions"][m.group(1)] = int(m.group(4))
    errs = [l for l in out.split("\n") if l.startswith("Error:")]
    res["ok"] = (rc == 0 and not errs)
    res["tail"] = "\n".join([l for l in out.split("\n") if not TLC_NOISE.match(l) and not l.strip().startswith('"CASE')][-60:])
    return res


# ----------------------------------------------------------------------------------------
# verdicts

def load_known():
    if not os.path.exists(KNOWN):
        return []
    return json.load(open(KNOWN)).get("findings", [])


def match_known(prop, fail, known):
    """A failure is a known finding iff an OPEN entry of the same property names it:
    selector keys: what (substring of fail['what']), detail (substring of json detail), run (regex on run id)."""
    for k in known:
        if k.get("status") != "open" or k.get("property") != prop:
            continue
        sel = k.get("selector", {})
        if "what" in sel and sel["what"] not in fail.get("what", ""):
            continue
        if "detail" in sel and sel["detail"] not in json.dumps(fail.get("detail")):
            continue
        if "run" in sel and not re.search(sel["run"], fail.get("run", "")):
            continue
        return k
    return None


def write_replay(prop, name, payload):
    ensure_dirs()
    path = os.path.join(REPLAYS, "%s-%s.json" % (prop, name))
    with open(path, "w") as f:
        json.dump(payload, f)
    return path


def write_evidence(prop, tier, level, coverage, wall, violations, assumptions):
    ensure_dirs()
    ev = {"property_id": prop, "tier": tier, "seed": seed(), "level": level, "coverage": coverage,
          "assumptions": assumptions, "wall_s": round(wall, 2), "violations": violations}
    with open(os.path.join(EVID, prop + ".json"), "w") as f:
        json.dump(ev, f, indent=1)


def finish(prop, violations, known_hits):
    """violations: list of (replay_path, text); known_hits: list of text."""
    for t in sorted(set(known_hits)):
        print("KNOWN-FINDING: property=%s %s" % (prop, t))
    if violations:
        for path, text in violations[:20]:
            print("VIOLATION property=%s replay=%s" % (prop, path))
            log("  " + text[:400])
        sys.exit(1)
    print("OK property=%s" % prop)
    sys.exit(0)
