----------------------------- MODULE FragLookup -----------------------------
(***************************************************************************)
(* C09, leg A: the library's lookup for fragmented tracks (track.rs:       *)
(* find_traf_idx_and_sample_idx and the fragment branches of sample_size,  *)
(* sample_offset, sample_time, sample_rendering_offset) transcribed step   *)
(* by step, against the reference semantics of property C09 -- both over   *)
(* an abstract track: the sequence of its track fragments                  *)
(*   [moof, base : opt, dataOff : opt, sizes, durs : opt, tfhdDur : opt,   *)
(*    tfdt, cts : opt]                                                     *)
(* plus the movie-level default duration.  Small integers suffice here;    *)
(* the byte-level semantics is Frag.tla.                                   *)
(* FixDefaultDur / FixIdZero switch the repaired defects d8970e1 / ce44f03 *)
(* back on.                                                                *)
(***************************************************************************)
EXTENDS Naturals, Integers, Sequences, FiniteSets, TLC

CONSTANTS FixDefaultDur, FixIdZero

None == [some |-> FALSE]
Some(x) == [some |-> TRUE, v |-> x]

RECURSIVE SumTo(_, _)
SumTo(s, n) == IF n = 0 THEN 0 ELSE s[n] + SumTo(s, n - 1)        \* s[1] + .. + s[n]

Count(tf) == Len(tf.sizes)
Total(trafs) == LET RECURSIVE R(_) R(i) == IF i = 0 THEN 0 ELSE Count(trafs[i]) + R(i - 1) IN R(Len(trafs))

-----------------------------------------------------------------------------
(* reference: samples numbered across the fragments in order *)
DurOf(tf, trex, i) == IF tf.durs.some THEN tf.durs.v[i] ELSE IF tf.tfhdDur.some THEN tf.tfhdDur.v ELSE trex
RefRun(tf, trex) ==
  [i \in 1..Count(tf) |->
     [ off   |-> (IF tf.base.some THEN tf.base.v ELSE tf.moof) + (IF tf.dataOff.some THEN tf.dataOff.v ELSE 0) + SumTo(tf.sizes, i - 1),
       size  |-> tf.sizes[i],
       start |-> tf.tfdt + SumTo([j \in 1..Count(tf) |-> DurOf(tf, trex, j)], i - 1),
       dur   |-> DurOf(tf, trex, i),
       cts   |-> IF tf.cts.some THEN tf.cts.v[i] ELSE 0 ]]
RefAll(trafs, trex) == LET RECURSIVE R(_) R(i) == IF i = 0 THEN <<>> ELSE R(i - 1) \o RefRun(trafs[i], trex) IN R(Len(trafs))
Reference(trafs, trex, k) ==
  IF k >= 1 /\ k <= Total(trafs) THEN [res |-> "some"] @@ RefAll(trafs, trex)[k] ELSE [res |-> "absent"]

-----------------------------------------------------------------------------
(* the library's algorithm *)
\* find_traf_idx_and_sample_idx: [found, traf, idx (0-based index in the run)]
RECURSIVE FindR(_, _, _, _)
FindR(trafs, g, i, offset) ==
  IF i > Len(trafs) THEN [found |-> FALSE, panic |-> FALSE]
  ELSE IF Count(trafs[i]) > g - offset THEN [found |-> TRUE, panic |-> FALSE, traf |-> i, idx |-> g - offset]
  ELSE FindR(trafs, g, i + 1, offset + Count(trafs[i]))
Find(trafs, k) ==
  IF k = 0 THEN (IF FixIdZero THEN [found |-> FALSE, panic |-> FALSE] ELSE [found |-> FALSE, panic |-> TRUE])   \* sample_id - 1
  ELSE FindR(trafs, k - 1, 1, 0)

LibSize(trafs, k) == LET f == Find(trafs, k) IN
  IF f.panic THEN [res |-> "panic"] ELSE IF ~f.found THEN [res |-> "err"] ELSE [res |-> "ok", v |-> trafs[f.traf].sizes[f.idx + 1]]

RECURSIVE SizeSumR(_, _, _, _)
SizeSumR(trafs, i, hi, acc) ==
  IF i >= hi THEN [res |-> "ok", v |-> acc]
  ELSE LET s == LibSize(trafs, i) IN IF s.res # "ok" THEN s ELSE SizeSumR(trafs, i + 1, hi, acc + s.v)

LibOffset(trafs, k) == LET f == Find(trafs, k) IN
  IF f.panic THEN [res |-> "panic"] ELSE IF ~f.found THEN [res |-> "err"]
  ELSE LET tf == trafs[f.traf]
           base == (IF tf.base.some THEN tf.base.v ELSE tf.moof) + (IF tf.dataOff.some THEN tf.dataOff.v ELSE 0)
           sum == SizeSumR(trafs, k - f.idx, k, 0)
       IN IF sum.res # "ok" THEN sum ELSE [res |-> "ok", v |-> base + sum.v]

LibTime(trafs, trex, k) == LET f == Find(trafs, k) IN
  IF f.panic THEN [res |-> "panic"]
  ELSE IF ~f.found THEN [res |-> "ok", start |-> (k - 1) * trex, dur |-> trex]
  ELSE LET tf == trafs[f.traf]
           def == IF tf.tfhdDur.some THEN tf.tfhdDur.v ELSE trex
       IN IF tf.durs.some
          THEN [res |-> "ok", start |-> tf.tfdt + SumTo(tf.durs.v, f.idx), dur |-> tf.durs.v[f.idx + 1]]
          ELSE [res |-> "ok", start |-> tf.tfdt + (IF FixDefaultDur THEN f.idx ELSE k - 1) * def, dur |-> def]

LibCts(trafs, k) == LET f == Find(trafs, k) IN
  IF f.found /\ trafs[f.traf].cts.some THEN trafs[f.traf].cts.v[f.idx + 1] ELSE 0

\* read_sample
LibRead(trafs, trex, k) ==
  LET o == LibOffset(trafs, k) IN
  IF o.res # "ok" THEN [res |-> o.res]
  ELSE LET s == LibSize(trafs, k)  t == LibTime(trafs, trex, k) IN
       IF s.res # "ok" THEN [res |-> s.res] ELSE IF t.res # "ok" THEN [res |-> t.res]
       ELSE [res |-> "some", off |-> o.v, size |-> s.v, start |-> t.start, dur |-> t.dur, cts |-> LibCts(trafs, k)]

Agrees(trafs, trex, k) ==
  LET r == LibRead(trafs, trex, k)  e == Reference(trafs, trex, k) IN
  IF e.res = "some" THEN r = e ELSE r.res = "err"
=============================================================================
