SPECIFICATION Spec
CONSTANTS
  MaxN = 7
INVARIANT ClosedFormIsSem
CHECK_DEADLOCK FALSE
