SPECIFICATION Spec
CONSTANTS
  Base = "plainurl"
  MaxOps = 0
  OpKinds = {"free", "unk", "swap", "large", "spare", "opt"}
INVARIANTS LayoutInvariant Emit
CHECK_DEADLOCK FALSE
