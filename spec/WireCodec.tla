----------------------------- MODULE WireCodec -----------------------------
(***************************************************************************)
(* Sample entries and codec configuration records:                         *)
(*   stsd (14496-12 8.5.2), VisualSampleEntry / AudioSampleEntry (12.1.3,  *)
(*   12.2.3), avcC and hvcC (14496-15 5.3.3.1, 8.3.3.1), vpcC (VP codec    *)
(*   ISO-BMFF binding v1), esds + ES_Descriptor / DecoderConfigDescriptor  *)
(*   / DecoderSpecificInfo / SLConfigDescriptor (14496-1 7.2.6) with the   *)
(*   AudioSpecificConfig prefix (14496-3 1.6.2.1), tx3g (3GPP TS 26.245).  *)
(***************************************************************************)
EXTENDS Naturals, Integers, Sequences, TLC, Wire

\* ---- length-prefixed NAL units -------------------------------------------
EncNal(n) == BE(Len(n.bytes), 2) \o n.bytes
EncNals(ns) == Flat([i \in 1..Len(ns) |-> EncNal(ns[i])])
\* decode cnt NAL units at offset o (bounded by hi): [ok, nals, next]
RECURSIVE DecNalsR(_, _, _, _, _)
DecNalsR(b, o, hi, cnt, acc) ==
  IF cnt = 0 THEN [ok |-> TRUE, nals |-> acc, next |-> o]
  ELSE IF o + 2 > hi \/ o + 2 + u16(b, o) > hi THEN [ok |-> FALSE, nals |-> acc, next |-> o]
  ELSE DecNalsR(b, o + 2 + u16(b, o), hi, cnt - 1, Append(acc, [bytes |-> raw(b, o + 2, u16(b, o))]))
DecNals(b, o, hi, cnt) == DecNalsR(b, o, hi, cnt, <<>>)

\* ---- avcC -------------------------------------------------------------------
EncAvcC(v) ==
  Box(AVCC, << v.configuration_version, v.avc_profile_indication, v.profile_compatibility,
               v.avc_level_indication, 252 + v.length_size_minus_one,
               224 + Len(v.sequence_parameter_sets) >>
            \o EncNals(v.sequence_parameter_sets)
            \o << Len(v.picture_parameter_sets) >> \o EncNals(v.picture_parameter_sets))
DecAvcC(b, k) ==
  LET p == PayloadLo(k)  hi == PayloadHi(k) IN
  IF k.s - k.h < 7 THEN [ok |-> FALSE]
  ELSE LET sp == DecNals(b, p + 6, hi, u8(b, p + 5) % 32) IN
       IF ~sp.ok \/ sp.next + 1 > hi THEN [ok |-> FALSE]
       ELSE LET pp == DecNals(b, sp.next + 1, hi, u8(b, sp.next)) IN
            IF ~pp.ok THEN [ok |-> FALSE]
            ELSE [ ok |-> TRUE,
                   v |-> [ configuration_version |-> u8(b, p), avc_profile_indication |-> u8(b, p + 1),
                           profile_compatibility |-> u8(b, p + 2), avc_level_indication |-> u8(b, p + 3),
                           length_size_minus_one |-> u8(b, p + 4) % 4,
                           sequence_parameter_sets |-> sp.nals, picture_parameter_sets |-> pp.nals ] ]

\* ---- VisualSampleEntry prefix (78 bytes) ----------------------------------------
EncVisual(v) ==
  Zeros(6) \o BE(v.data_reference_index, 2) \o Zeros(16) \o BE(v.width, 2) \o BE(v.height, 2)
  \o ToBE(v.horizresolution, 4) \o ToBE(v.vertresolution, 4) \o Zeros(4) \o BE(v.frame_count, 2)
  \o Zeros(32) \o BE(v.depth, 2) \o <<255, 255>>
DecVisual(b, p) ==
  [ data_reference_index |-> u16(b, p + 6), width |-> u16(b, p + 24), height |-> u16(b, p + 26),
    horizresolution |-> n32(b, p + 28), vertresolution |-> n32(b, p + 32),
    frame_count |-> u16(b, p + 40), depth |-> u16(b, p + 74) ]

EncAvc1(v) == Box(AVC1, EncVisual(v) \o EncAvcC(v.avcc))
\* the first avcC among the children that follow the 78-byte prefix
DecAvc1(b, k) ==
  IF k.s - k.h < 78 THEN [ok |-> FALSE, why |-> "avc1 too short"]
  ELSE LET ks == Kids(b, PayloadLo(k) + 78, PayloadHi(k)) IN
       IF ~ks.ok \/ ~HasKid(ks.kids, AVCC) THEN [ok |-> FALSE, why |-> "avc1 without avcC"]
       ELSE LET c == DecAvcC(b, Kid(ks.kids, AVCC)) IN
            IF ~c.ok THEN [ok |-> FALSE, why |-> "avcC malformed"]
            ELSE [ok |-> TRUE, why |-> "", v |-> [avcc |-> c.v] @@ DecVisual(b, PayloadLo(k))]

\* ---- hvcC -------------------------------------------------------------------
B2N(x) == IF x THEN 1 ELSE 0
EncHvcArray(a) == << B2N(a.completeness) * 128 + a.nal_unit_type >> \o BE(Len(a.nalus), 2)
                  \o Flat([i \in 1..Len(a.nalus) |-> BE(a.nalus[i].size, 2) \o a.nalus[i].data])
EncHvcC(v) ==
  Box(HVCC, << v.configuration_version,
               v.general_profile_space * 64 + B2N(v.general_tier_flag) * 32 + v.general_profile_idc >>
            \o ToBE(v.general_profile_compatibility_flags, 4)
            \o ToBE(v.general_constraint_indicator_flag, 6)
            \o << v.general_level_idc >>
            \o BE(61440 + v.min_spatial_segmentation_idc, 2)
            \o << 252 + v.parallelism_type, 252 + v.chroma_format_idc,
                  248 + v.bit_depth_luma_minus8, 248 + v.bit_depth_chroma_minus8 >>
            \o BE(v.avg_frame_rate, 2)
            \o << v.constant_frame_rate * 64 + v.num_temporal_layers * 8
                  + B2N(v.temporal_id_nested) * 4 + v.length_size_minus_one,
                  Len(v.arrays) >>
            \o Flat([i \in 1..Len(v.arrays) |-> EncHvcArray(v.arrays[i])]))
RECURSIVE DecHvcNalusR(_, _, _, _, _)
DecHvcNalusR(b, o, hi, cnt, acc) ==
  IF cnt = 0 THEN [ok |-> TRUE, nalus |-> acc, next |-> o]
  ELSE IF o + 2 > hi \/ o + 2 + u16(b, o) > hi THEN [ok |-> FALSE, nalus |-> acc, next |-> o]
  ELSE DecHvcNalusR(b, o + 2 + u16(b, o), hi, cnt - 1,
                    Append(acc, [size |-> u16(b, o), data |-> raw(b, o + 2, u16(b, o))]))
RECURSIVE DecHvcArraysR(_, _, _, _, _)
DecHvcArraysR(b, o, hi, cnt, acc) ==
  IF cnt = 0 THEN [ok |-> TRUE, arrays |-> acc]
  ELSE IF o + 3 > hi THEN [ok |-> FALSE, arrays |-> acc]
  ELSE LET ns == DecHvcNalusR(b, o + 3, hi, u16(b, o + 1), <<>>) IN
       IF ~ns.ok THEN [ok |-> FALSE, arrays |-> acc]
       ELSE DecHvcArraysR(b, ns.next, hi, cnt - 1,
              Append(acc, [completeness |-> u8(b, o) >= 128, nal_unit_type |-> u8(b, o) % 64, nalus |-> ns.nalus]))
DecHvcC(b, k) ==
  LET p == PayloadLo(k)  hi == PayloadHi(k) IN
  IF k.s - k.h < 23 THEN [ok |-> FALSE]
  ELSE LET ar == DecHvcArraysR(b, p + 23, hi, u8(b, p + 22), <<>>) IN
       IF ~ar.ok THEN [ok |-> FALSE]
       ELSE [ ok |-> TRUE,
              v |-> [ configuration_version |-> u8(b, p),
                      general_profile_space |-> u8(b, p + 1) \div 64,
                      general_tier_flag |-> (u8(b, p + 1) \div 32) % 2 = 1,
                      general_profile_idc |-> u8(b, p + 1) % 32,
                      general_profile_compatibility_flags |-> n32(b, p + 2),
                      general_constraint_indicator_flag |-> NatAt(b, p + 7, 6),
                      general_level_idc |-> u8(b, p + 12),
                      min_spatial_segmentation_idc |-> u16(b, p + 13) % 4096,
                      parallelism_type |-> u8(b, p + 15) % 4,
                      chroma_format_idc |-> u8(b, p + 16) % 4,
                      bit_depth_luma_minus8 |-> u8(b, p + 17) % 8,
                      bit_depth_chroma_minus8 |-> u8(b, p + 18) % 8,
                      avg_frame_rate |-> u16(b, p + 19),
                      constant_frame_rate |-> u8(b, p + 21) \div 64,
                      num_temporal_layers |-> (u8(b, p + 21) \div 8) % 8,
                      temporal_id_nested |-> (u8(b, p + 21) \div 4) % 2 = 1,
                      length_size_minus_one |-> u8(b, p + 21) % 4,
                      arrays |-> ar.arrays ] ]

EncHev1(v) == Box(HEV1, EncVisual(v) \o EncHvcC(v.hvcc))
DecHev1(b, k) ==
  IF k.s - k.h < 78 THEN [ok |-> FALSE, why |-> "hev1 too short"]
  ELSE LET ks == Kids(b, PayloadLo(k) + 78, PayloadHi(k)) IN
       IF ~ks.ok \/ ~HasKid(ks.kids, HVCC) THEN [ok |-> FALSE, why |-> "hev1 without hvcC"]
       ELSE LET c == DecHvcC(b, Kid(ks.kids, HVCC)) IN
            IF ~c.ok THEN [ok |-> FALSE, why |-> "hvcC malformed"]
            ELSE [ok |-> TRUE, why |-> "", v |-> [hvcc |-> c.v] @@ DecVisual(b, PayloadLo(k))]

\* ---- vpcC (version 1) and vp09 ---------------------------------------------------
EncVpcC(v) ==
  Full(VPCC, v.version, v.flags,
       << v.profile, v.level,
          v.bit_depth * 16 + v.chroma_subsampling * 2 + B2N(v.video_full_range_flag),
          v.color_primaries, v.transfer_characteristics, v.matrix_coefficients >>
       \o BE(v.codec_initialization_data_size, 2))
DecVpcC(b, k) ==
  LET p == BodyLo(k) IN
  IF k.s - k.h < 12 THEN [ok |-> FALSE]
  ELSE [ ok |-> TRUE,
         v |-> [ version |-> Ver(b, k), flags |-> Flg(b, k), profile |-> u8(b, p), level |-> u8(b, p + 1),
                 bit_depth |-> u8(b, p + 2) \div 16, chroma_subsampling |-> (u8(b, p + 2) \div 2) % 8,
                 video_full_range_flag |-> u8(b, p + 2) % 2 = 1,
                 color_primaries |-> u8(b, p + 3), transfer_characteristics |-> u8(b, p + 4),
                 matrix_coefficients |-> u8(b, p + 5), codec_initialization_data_size |-> u16(b, p + 6) ] ]
\* the library exposes the VisualSampleEntry of vp09 with its reserved / pre_defined areas as
\* fields (version, flags, start_code, reserved0, ..., compressorname, end_code); on the wire
\* it is the ordinary 78-byte prefix
EncVp09(v) ==
  Box(VP09, << v.version >> \o BE(v.flags, 3) \o BE(v.start_code, 2) \o BE(v.data_reference_index, 2)
            \o v.reserved0 \o BE(v.width, 2) \o BE(v.height, 2)
            \o BE(v.horizresolution[1], 2) \o BE(v.horizresolution[2], 2)
            \o BE(v.vertresolution[1], 2) \o BE(v.vertresolution[2], 2)
            \o v.reserved1 \o BE(v.frame_count, 2) \o v.compressorname \o BE(v.depth, 2)
            \o BE(v.end_code, 2) \o EncVpcC(v.vpcc))
DecVp09(b, k) ==
  LET p == PayloadLo(k) IN
  IF k.s - k.h < 78 THEN [ok |-> FALSE, why |-> "vp09 too short"]
  ELSE LET ks == Kids(b, p + 78, PayloadHi(k)) IN
       IF ~ks.ok \/ Len(ks.kids) = 0 \/ ks.kids[1].t # VPCC THEN [ok |-> FALSE, why |-> "vp09 without vpcC"]
       ELSE LET c == DecVpcC(b, ks.kids[1]) IN
            IF ~c.ok THEN [ok |-> FALSE, why |-> "vpcC malformed"]
            ELSE [ ok |-> TRUE, why |-> "",
                   v |-> [ version |-> u8(b, p), flags |-> u24(b, p + 1), start_code |-> u16(b, p + 4),
                           data_reference_index |-> u16(b, p + 6), reserved0 |-> raw(b, p + 8, 16),
                           width |-> u16(b, p + 24), height |-> u16(b, p + 26),
                           horizresolution |-> <<u16(b, p + 28), u16(b, p + 30)>>,
                           vertresolution |-> <<u16(b, p + 32), u16(b, p + 34)>>,
                           reserved1 |-> raw(b, p + 36, 4), frame_count |-> u16(b, p + 40),
                           compressorname |-> raw(b, p + 42, 32), depth |-> u16(b, p + 74),
                           end_code |-> u16(b, p + 76), vpcc |-> c.v ] ]

\* ---- MPEG-4 descriptors ----------------------------------------------------------
\* expandable length: 7 bits per byte, continuation flag 0x80, minimal form
LenBytes(n) == IF n < 128 THEN <<n>>
               ELSE IF n < 16384 THEN <<128 + n \div 128, (n % 128)>>
               ELSE IF n < 2097152 THEN <<128 + n \div 16384, 128 + ((n \div 128) % 128), (n % 128)>>
               ELSE <<128 + n \div 2097152, 128 + ((n \div 16384) % 128), 128 + ((n \div 128) % 128), (n % 128)>>
\* padded to exactly 4 bytes (0x80 0x80 0x80 n), as many muxers write it
LenBytes4(n) == <<128 + n \div 2097152, 128 + ((n \div 16384) % 128), 128 + ((n \div 128) % 128), (n % 128)>>
Desc(tag, body) == <<tag>> \o LenBytes(Len(body)) \o body
Desc4(tag, body) == <<tag>> \o LenBytes4(Len(body)) \o body
\* read tag + length at o: [ok, tag, len, body]  (length uses at most 4 bytes)
RECURSIVE DescLenR(_, _, _, _, _)
DescLenR(b, o, hi, i, acc) ==
  IF o >= hi \/ i = 4 THEN [ok |-> i = 4, len |-> acc, next |-> o]
  ELSE IF u8(b, o) >= 128 THEN DescLenR(b, o + 1, hi, i + 1, acc * 128 + (u8(b, o) % 128))
  ELSE [ok |-> TRUE, len |-> acc * 128 + u8(b, o), next |-> o + 1]
DescHdr(b, o, hi) ==
  IF o + 2 > hi THEN [ok |-> FALSE, tag |-> 0, len |-> 0, body |-> o]
  ELSE LET l == DescLenR(b, o + 1, hi, 0, 0) IN
       [ok |-> l.ok /\ l.next + l.len <= hi, tag |-> u8(b, o), len |-> l.len, body |-> l.next]

\* AudioSpecificConfig prefix: audioObjectType (5 bits, 31 = escape + 6 bits), samplingFrequencyIndex
\* (4 bits, 15 = escape + 24 bits), channelConfiguration (4 bits); remaining bits zero
\* bits as a sequence of 0/1
NumBits(n, w) == [i \in 1..w |-> (n \div (2 ^ (w - i))) % 2]
RECURSIVE BitsToBytesR(_, _, _)
BitsToBytesR(bits, i, acc) ==
  IF i > Len(bits) THEN acc
  ELSE LET byte == bits[i] * 128 + bits[i + 1] * 64 + bits[i + 2] * 32 + bits[i + 3] * 16
                   + bits[i + 4] * 8 + bits[i + 5] * 4 + bits[i + 6] * 2 + bits[i + 7]
       IN BitsToBytesR(bits, i + 8, Append(acc, byte))
PadBits(bits) == bits \o [i \in 1..((8 - (Len(bits) % 8)) % 8) |-> 0]
BitsToBytes(bits) == BitsToBytesR(PadBits(bits), 1, <<>>)
EncASC(a) ==
  BitsToBytes( (IF a.object_type < 31 THEN NumBits(a.object_type, 5)
                ELSE NumBits(31, 5) \o NumBits(a.object_type - 32, 6))
               \o NumBits(a.freq_index, 4)
               \o NumBits(a.chan_conf, 4)
               \o <<0, 0, 0>> )          \* GASpecificConfig: frameLength, dependsOnCoreCoder, extension
BitAt(b, o, i) == (u8(b, o + (i \div 8)) \div (2 ^ (7 - (i % 8)))) % 2     \* i-th bit (0-based) from offset o
RECURSIVE BitsNumR(_, _, _, _, _)
BitsNumR(b, o, i, w, acc) == IF w = 0 THEN acc ELSE BitsNumR(b, o, i + 1, w - 1, acc * 2 + BitAt(b, o, i))
BitsNum(b, o, i, w) == BitsNumR(b, o, i, w, 0)
DecASC(b, o, len) ==
  IF len < 2 THEN [ok |-> FALSE]
  ELSE LET a5 == BitsNum(b, o, 0, 5)
           ext == a5 = 31
           ot == IF ext THEN 32 + BitsNum(b, o, 5, 6) ELSE a5
           fi0 == IF ext THEN 11 ELSE 5
       IN IF ext /\ len < 3 THEN [ok |-> FALSE]
          ELSE LET fi == BitsNum(b, o, fi0, 4)
                   c0 == IF fi = 15 THEN fi0 + 4 + 24 ELSE fi0 + 4
               IN IF (c0 + 4 + 7) \div 8 > len THEN [ok |-> FALSE]
                  ELSE [ok |-> TRUE, v |-> [object_type |-> ot, freq_index |-> fi, chan_conf |-> BitsNum(b, o, c0, 4)]]

(* esds value (the library's field names):
   [version, flags, es_desc: [es_id, dec_config: [object_type_indication, stream_type, up_stream,
    buffer_size_db, max_bitrate, avg_bitrate, dec_specific: [profile, freq_index, chan_conf]], sl_config: []]] *)
EncDecSpecific(d) == Desc(5, EncASC([object_type |-> d.profile, freq_index |-> d.freq_index, chan_conf |-> d.chan_conf]))
EncDecConfig(c) == Desc(4, << c.object_type_indication, c.stream_type * 4 + c.up_stream + 1 >>
                           \o BE(c.buffer_size_db, 3) \o ToBE(c.max_bitrate, 4) \o ToBE(c.avg_bitrate, 4)
                           \o EncDecSpecific(c.dec_specific))
EncSLConfig == Desc(6, <<2>>)
EncEsDesc(e) == Desc(3, BE(e.es_id, 2) \o <<0>> \o EncDecConfig(e.dec_config) \o EncSLConfig)
EncEsds(v) == Full(ESDS, v.version, v.flags, EncEsDesc(v.es_desc))
\* same content with every descriptor length padded to 4 bytes
EncEsdsPadded(v) ==
  LET c == v.es_desc.dec_config  d == c.dec_specific IN
  Full(ESDS, v.version, v.flags,
       Desc4(3, BE(v.es_desc.es_id, 2) \o <<0>>
                \o Desc4(4, << c.object_type_indication, c.stream_type * 4 + c.up_stream + 1 >>
                            \o BE(c.buffer_size_db, 3) \o ToBE(c.max_bitrate, 4) \o ToBE(c.avg_bitrate, 4)
                            \o Desc4(5, EncASC([object_type |-> d.profile, freq_index |-> d.freq_index, chan_conf |-> d.chan_conf])))
                \o Desc4(6, <<2>>)))

\* same content with a long AudioSpecificConfig (the configuration proper followed by 130 zero bytes of
\* extension): the three enclosing descriptor lengths need two bytes each in the minimal form (>= 128)
EncEsdsLong(v) ==
  LET c == v.es_desc.dec_config  d == c.dec_specific IN
  Full(ESDS, v.version, v.flags,
       Desc(3, BE(v.es_desc.es_id, 2) \o <<0>>
               \o Desc(4, << c.object_type_indication, c.stream_type * 4 + c.up_stream + 1 >>
                           \o BE(c.buffer_size_db, 3) \o ToBE(c.max_bitrate, 4) \o ToBE(c.avg_bitrate, 4)
                           \o Desc(5, EncASC([object_type |-> d.profile, freq_index |-> d.freq_index, chan_conf |-> d.chan_conf]) \o [i \in 1..130 |-> 0]))
               \o Desc(6, <<2>>)))

\* first descriptor with the given tag in [o, hi)
RECURSIVE FindDesc(_, _, _, _, _)
FindDesc(b, o, hi, tag, fuel) ==
  IF o >= hi \/ fuel = 0 THEN [ok |-> FALSE]
  ELSE LET h == DescHdr(b, o, hi) IN
       IF ~h.ok THEN [ok |-> FALSE]
       ELSE IF h.tag = tag THEN h
       ELSE FindDesc(b, h.body + h.len, hi, tag, fuel - 1)

DecEsds(b, k) ==
  LET p == BodyLo(k)  hi == PayloadHi(k) IN
  IF k.s - k.h < 4 THEN [ok |-> FALSE]
  ELSE LET es == DescHdr(b, p, hi) IN
       IF ~es.ok \/ es.tag # 3 \/ es.len < 3 THEN [ok |-> FALSE]
       ELSE LET ehi == es.body + es.len
                dc  == FindDesc(b, es.body + 3, ehi, 4, 8) IN
            IF ~dc.ok \/ dc.len < 13 THEN [ok |-> FALSE]
            ELSE LET q == dc.body
                     ds == FindDesc(b, q + 13, q + dc.len, 5, 8) IN
                 IF ~ds.ok THEN [ok |-> FALSE]
                 ELSE LET asc == DecASC(b, ds.body, ds.len) IN
                      IF ~asc.ok THEN [ok |-> FALSE]
                      ELSE [ ok |-> TRUE,
                             asc |-> asc.v,
                             avg_bitrate |-> n32(b, q + 9),
                             v |-> [ version |-> Ver(b, k), flags |-> Flg(b, k),
                                     es_desc |-> [ es_id |-> u16(b, es.body),
                                        dec_config |-> [ object_type_indication |-> u8(b, q),
                                                         stream_type |-> u8(b, q + 1) \div 4,
                                                         up_stream |-> ((u8(b, q + 1) \div 2) % 2) * 2,
                                                         buffer_size_db |-> u24(b, q + 2),
                                                         max_bitrate |-> n32(b, q + 5),
                                                         avg_bitrate |-> n32(b, q + 9),
                                                         dec_specific |-> [ profile |-> asc.v.object_type,
                                                                            freq_index |-> asc.v.freq_index,
                                                                            chan_conf |-> asc.v.chan_conf ] ],
                                        sl_config |-> [x \in {} |-> 0] ] ] ]

\* ---- AudioSampleEntry (28-byte prefix) and mp4a -----------------------------------
EncMp4a(v) ==
  Box(MP4A, Zeros(6) \o BE(v.data_reference_index, 2) \o Zeros(8) \o BE(v.channelcount, 2)
            \o BE(v.samplesize, 2) \o Zeros(4) \o ToBE(v.samplerate, 4)
            \o (IF v.esds.some THEN EncEsds(v.esds.v) ELSE <<>>))
DecMp4a(b, k) ==
  LET p == PayloadLo(k) IN
  IF k.s - k.h < 28 THEN [ok |-> FALSE, why |-> "mp4a too short"]
  ELSE LET qt == IF u16(b, p + 8) = 1 THEN 16 ELSE 0        \* QuickTime version-1 sound description
           ks == Kids(b, p + 28 + qt, PayloadHi(k)) IN
       IF ~ks.ok THEN [ok |-> FALSE, why |-> "mp4a children"]
       ELSE LET e == IF HasKid(ks.kids, ESDS) THEN DecEsds(b, Kid(ks.kids, ESDS)) ELSE [ok |-> FALSE] IN
            IF HasKid(ks.kids, ESDS) /\ ~e.ok THEN [ok |-> FALSE, why |-> "esds malformed"]
            ELSE [ ok |-> TRUE, why |-> "",
                   has_esds |-> HasKid(ks.kids, ESDS),
                   asc |-> IF HasKid(ks.kids, ESDS) THEN e.asc ELSE [object_type |-> 0, freq_index |-> 0, chan_conf |-> 0],
                   avg_bitrate |-> IF HasKid(ks.kids, ESDS) THEN e.avg_bitrate ELSE <<>>,
                   v |-> [ data_reference_index |-> u16(b, p + 6), channelcount |-> u16(b, p + 16),
                           samplesize |-> u16(b, p + 18), samplerate |-> n32(b, p + 24),
                           esds |-> IF HasKid(ks.kids, ESDS) THEN Some(e.v) ELSE None ] ]

\* ---- tx3g ---------------------------------------------------------------------------
EncTx3g(v) ==
  Box(TX3G, Zeros(6) \o BE(v.data_reference_index, 2) \o ToBE(v.display_flags, 4)
            \o BEs(v.horizontal_justification, 1) \o BEs(v.vertical_justification, 1)
            \o << v.bg_color_rgba.red, v.bg_color_rgba.green, v.bg_color_rgba.blue, v.bg_color_rgba.alpha >>
            \o BEs(v.box_record[1], 2) \o BEs(v.box_record[2], 2) \o BEs(v.box_record[3], 2) \o BEs(v.box_record[4], 2)
            \o v.style_record)
DecTx3g(b, k) ==
  LET p == PayloadLo(k) IN
  IF k.s - k.h < 38 THEN [ok |-> FALSE, why |-> "tx3g too short"]
  ELSE [ ok |-> TRUE, why |-> "",
         v |-> [ data_reference_index |-> u16(b, p + 6), display_flags |-> n32(b, p + 8),
                 horizontal_justification |-> s8(b, p + 12), vertical_justification |-> s8(b, p + 13),
                 bg_color_rgba |-> [red |-> u8(b, p + 14), green |-> u8(b, p + 15), blue |-> u8(b, p + 16), alpha |-> u8(b, p + 17)],
                 box_record |-> <<s16(b, p + 18), s16(b, p + 20), s16(b, p + 22), s16(b, p + 24)>>,
                 style_record |-> raw(b, p + 26, 12) ] ]

\* ---- stsd ---------------------------------------------------------------------------
EncStsd(v, entry) == Full(STSD, v.version, v.flags, BE(1, 4) \o entry)
\* first sample entry of the stsd box k: [ok, why, t, v]
DecStsdEntry(b, k) ==
  IF k.s - k.h < 8 THEN [ok |-> FALSE, why |-> "stsd too short", t |-> <<>>]
  ELSE LET ks == Kids(b, BodyLo(k) + 4, PayloadHi(k)) IN
       IF ~ks.ok \/ Len(ks.kids) = 0 THEN [ok |-> FALSE, why |-> "stsd has no entry", t |-> <<>>]
       ELSE LET e == ks.kids[1]
                d == CASE e.t = AVC1 -> DecAvc1(b, e) [] e.t = HEV1 -> DecHev1(b, e)
                       [] e.t = VP09 -> DecVp09(b, e) [] e.t = MP4A -> DecMp4a(b, e)
                       [] e.t = TX3G -> DecTx3g(b, e)
                       [] OTHER -> [ok |-> FALSE, why |-> "unknown sample entry"]
            IN IF d.ok THEN [ok |-> TRUE, why |-> "", t |-> e.t, v |-> d.v, x |-> d]
               ELSE [ok |-> FALSE, why |-> d.why, t |-> e.t]
=============================================================================
