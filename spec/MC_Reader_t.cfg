SPECIFICATION Spec
CONSTANTS
  Kinds = {"read", "offset", "count"}
  Tracks = {0, 1, 2, 9}
  Ids = {"0", "1", "n", "n+1"}
  MaxLen = 3
INVARIANT Emit
CHECK_DEADLOCK FALSE
