SPECIFICATION Spec
CONSTANTS
  MaxN = 3
  MaxNT = 3
  SizeMode = "all"
INVARIANTS LookupAgrees GeneratedConsistent Emit
CHECK_DEADLOCK FALSE
