SPECIFICATION Spec
CONSTANTS
  FixDefaultDur = TRUE
  FixIdZero = TRUE
  MaxTrafs = 2
  MaxCount = 2
INVARIANT LookupAgrees
CHECK_DEADLOCK FALSE
