SPECIFICATION Spec
CONSTANTS
  Structures <- QuickStructures
  TrexDurs <- TrexBoth
  Bases = {"moof", "none", "start", "end", "exact", "both"}
  DurModes = {"per"}
  CtsModes = {"none", "v0", "v1neg"}
  TfdtVs = {0}
  Orders = {"asc"}
  TrexPerTrack = FALSE
  MdatFirsts = {TRUE}
  Deliveries = {"one", "split"}
INVARIANT Emit
CHECK_DEADLOCK FALSE
