SPECIFICATION Spec
CONSTANTS
  MaxN = 4
  MaxNT = 4
  SizeMode = "all"
INVARIANTS LookupAgrees GeneratedConsistent Emit
CHECK_DEADLOCK FALSE
