----------------------------- MODULE MC_Uniform -----------------------------
(* Leg A for Uniform: the closed form equals SampleTable!Sem of the explicit table set, for every
   small instance (n <= MaxN samples, every chunk size, with / without a gap between the chunks,
   with / without a composition-offset run). *)
EXTENDS Uniform, SampleTable, TLC
CONSTANTS MaxN
VARIABLES n, size, delta, cts, spc, gap, done
vars == <<n, size, delta, cts, spc, gap, done>>

U == [n |-> FromInt(n), size |-> size, delta |-> FromInt(delta), hasCts |-> cts # 99, cts |-> cts,
      spc |-> FromInt(spc), gap |-> gap, base |-> <<40>>]
Full == n \div spc
Rest == n % spc
C == Full + (IF Rest > 0 THEN 1 ELSE 0)
Explicit ==
  [ stsz |-> [size |-> size, count |-> n, sizes |-> <<>>],
    stts |-> IF n = 0 THEN <<>> ELSE <<[count |-> n, delta |-> FromInt(delta)]>>,
    ctts |-> IF cts = 99 THEN [some |-> FALSE, entries |-> <<>>] ELSE [some |-> TRUE, entries |-> IF n = 0 THEN <<>> ELSE <<[count |-> n, offset |-> cts]>>],
    stss |-> [some |-> FALSE, entries |-> <<>>],
    stsc |-> (IF Full > 0 THEN <<[first |-> 1, spc |-> spc, sdi |-> 1]>> ELSE <<>>)
             \o (IF Rest > 0 THEN <<[first |-> Full + 1, spc |-> Rest, sdi |-> 1]>> ELSE <<>>),
    co |-> [kind |-> "co64", entries |-> [c \in 1..C |-> FromInt(40 + (c - 1) * (spc * size + gap))]] ]

Init == /\ n \in 0..MaxN /\ size \in {1, 3} /\ delta \in {0, 1, 5} /\ cts \in {99, -2, 7}
        /\ spc \in 1..(MaxN + 1) /\ gap \in {0, 5} /\ done = FALSE
Next == ~done /\ done' = TRUE /\ UNCHANGED <<n, size, delta, cts, spc, gap>>
Spec == Init /\ [][Next]_vars

ClosedFormIsSem ==
  /\ Consistent(Explicit)
  /\ NChunks(U) = FromInt(C)
  /\ LET sem == Sem(Explicit) IN
     \A k \in 1..n :
        LET s == USample(U, FromInt(k)) IN
        /\ UInRange(U, FromInt(k))
        /\ sem[k].off = s.off /\ sem[k].size = s.size /\ sem[k].start = s.start /\ sem[k].dur = s.dur
        /\ sem[k].cts = s.cts /\ sem[k].sync = s.sync
  /\ ~UInRange(U, <<>>) /\ ~UInRange(U, FromInt(n + 1))
=============================================================================
