SPECIFICATION Spec
CONSTANTS
  Base = "fragemsg"
  MaxOps = 3
  OpKinds = {"free", "unk", "swap", "large", "spare"}
INVARIANTS LayoutInvariant Emit
CHECK_DEADLOCK FALSE
