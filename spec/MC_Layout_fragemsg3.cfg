SPECIFICATION Spec
CONSTANTS
  Base = "fragemsg"
  MaxOps = 3
  OpKinds = {"free", "unk", "swap", "large", "spare", "opt"}
INVARIANTS LayoutInvariant Emit
CHECK_DEADLOCK FALSE
