---------------------------- MODULE Trace_Read ----------------------------
(***************************************************************************)
(* Reader sessions (module Reader) validated against recorded executions   *)
(* of the real Mp4Reader.                                                   *)
(*                                                                         *)
(* The `file` event carries the raw bytes of the input (and, for a media   *)
(* segment opened against an initialization segment, of both).  They are   *)
(* decoded HERE by the specification's own ISO-BMFF decoder (Iso, Frag,    *)
(* Meta); the expected result of every call is computed from the decoded   *)
(* boxes with the reference semantics (SampleTable!Sem, Frag!FragSamples,  *)
(* Meta!Accessors).  The reader state is the immutable file: every call    *)
(* event, in whatever order and however often repeated, must return the    *)
(* function of (file, arguments) -- which is C03 / C09 / C12 / C18 for the *)
(* files generated for them and C15 for arbitrary call schedules.          *)
(***************************************************************************)
EXTENDS Reader, Json, IOUtils, TLC, TLCExt

Rec == ndJsonDeserialize(IOEnv.TRACE)

VARIABLES l, run, prop
vars == <<file, l, run, prop>>

TInit == RInit /\ l = 1 /\ run = "" /\ prop = "C03"

ev == Rec[l]
IsEvent(e) == l <= Len(Rec) /\ ev.e = e /\ l' = l + 1

Fail(what, detail) == PrintT(ToJson(<<"FAIL", l, run, prop, what, detail>>))
Note(what, detail) == PrintT(ToJson(<<"NOTE", l, run, what, detail>>))
Check(cond, what, detail) == IF cond THEN TRUE ELSE Fail(what, detail)

TReset == /\ IsEvent("reset")
          /\ run' = ev.id /\ prop' = ev.prop /\ file' = NoFileYet

\* Open: the session's file is fixed here, decoded by the specification
TFile == /\ IsEvent("file")
         /\ \E f \in {DecodeInput(ev)} :
              /\ Open(f)
              /\ IF f.ok THEN TRUE
                 ELSE IF ev.expect_ok THEN Fail("specification cannot decode a generated file", f.why)
                 ELSE Note("input not decodable by the specification: no expectations", f.why)
         /\ UNCHANGED <<run, prop>>

Stutter == UNCHANGED <<file, run, prop>>

TOpen == /\ IsEvent("open")
         /\ IF file.ok
            THEN IF ev.res = "ok"
                 THEN Check(ev.tracks = TrackIds(file), "reader lists other tracks than the file has", ev.tracks)
                 ELSE Fail("a valid file does not open", <<ev.res, ev.msg>>)
            ELSE Check(ev.res # "panic", "open panicked", ev.msg)
         /\ Stutter

TCount == /\ IsEvent("count")
          /\ IF file.ok /\ HasTrack(file, ev.t) /\ Known(file, ev.t)
             THEN Check(ev.res = "ok" /\ ev.n = Count(file, ev.t), "sample_count", <<ev.t, ev.res, ev.n, Count(file, ev.t)>>)
             ELSE IF file.ok /\ ~HasTrack(file, ev.t)
             THEN Check(ev.res = "err", "sample_count of a track that does not exist", <<ev.t, ev.res>>)
             ELSE Check(ev.res # "panic", "sample_count panicked", ev.t)
          /\ Stutter

\* the observed sample against the reference sample s of the file
SampleMatches(r, s) ==
  /\ r.len = s.size /\ r.start = s.start /\ r.dur = s.dur /\ r.cts = s.cts
  /\ (s.syncKnown => r.sync = s.sync)
  /\ (r.b = <<>> \/ s.size = 0 \/ ~Logged(file, s.off, s.size) \/ r.b = BytesAt(file, s.off, s.size))
  /\ (r.b # <<>> \/ s.size <= 8 \/ ~Logged(file, s.off, s.size)
        \/ (r.head = BytesAt(file, s.off, 8) /\ r.tail = BytesAt(file, Add(s.off, FromInt(s.size - 8)), 8)))
SampleDiff(r, s) ==
  (IF r.len = s.size THEN {} ELSE {"size"}) \cup (IF r.start = s.start THEN {} ELSE {"start"})
  \cup (IF r.dur = s.dur THEN {} ELSE {"duration"}) \cup (IF r.cts = s.cts THEN {} ELSE {"cts"})
  \cup (IF s.syncKnown /\ r.sync # s.sync THEN {"sync"} ELSE {})
  \cup (IF SampleMatches([r EXCEPT !.len = s.size, !.start = s.start, !.dur = s.dur, !.cts = s.cts, !.sync = s.sync], s)
        THEN {} ELSE {"bytes"})

TRead == /\ IsEvent("read")
         /\ IF file.ok /\ HasTrack(file, ev.t) /\ Known(file, ev.t)
            THEN IF ev.k \in 1..Count(file, ev.t)
                 THEN \E s \in {Sample(file, ev.t, ev.k)} :
                      IF InFile(file, s.off, s.size)
                      THEN IF ev.res = "some"
                           THEN Check(SampleMatches(ev.s, s), "read_sample differs from the file's sample",
                                      <<ev.t, ev.k, SampleDiff(ev.s, s), Flags(file, ev.t)>>)
                           ELSE Fail("read_sample does not return the sample", <<ev.t, ev.k, ev.res, Flags(file, ev.t)>>)
                      ELSE Check(ev.res \in {"err", "ioerr"} \/ (ev.res = "some" /\ s.size = 0),
                                 "sample outside the file must be an error", <<ev.t, ev.k, ev.res>>)
                 ELSE Check(ev.res \in {"none", "err"}, "read_sample yields a sample for an id outside 1..count",
                            <<ev.t, ev.k, ev.res>>)
            ELSE IF file.ok /\ ~HasTrack(file, ev.t)
            THEN Check(ev.res = "err", "read_sample of a track that does not exist", <<ev.t, ev.res>>)
            ELSE Check(ev.res # "panic", "read_sample panicked", <<ev.t, ev.k, ev.msg>>)
         /\ Stutter

TOffset == /\ IsEvent("offset")
           /\ IF file.ok /\ HasTrack(file, ev.t) /\ Known(file, ev.t)
              THEN IF ev.k \in 1..Count(file, ev.t)
                   THEN Check(ev.res = "ok" /\ ev.off = Sample(file, ev.t, ev.k).off, "sample_offset",
                              <<ev.t, ev.k, ev.res, ev.off, Flags(file, ev.t)>>)
                   ELSE Check(ev.res # "panic" /\ ev.res # "ok", "sample_offset for an id outside 1..count", <<ev.t, ev.k, ev.res>>)
              ELSE Check(ev.res # "panic", "sample_offset panicked", <<ev.t, ev.k>>)
           /\ Stutter

\* metadata accessors (C18)
TMeta == /\ IsEvent("meta")
         /\ IF file.ok
            THEN \E m \in {Metadata(file)} :
                 Check(ev.title = m.title /\ ev.year = m.year /\ ev.poster = m.poster /\ ev.summary = m.summary,
                       "metadata accessors", <<MetaDiff(ev, m), m.shape>>)
            ELSE TRUE
         /\ Stutter

\* movie-level accessors (C15: a function of the file, whichever reader instance is asked and whenever)
TMovie == /\ IsEvent("movie")
          /\ IF file.ok
             THEN Check(ev.res = "ok" /\ ev.timescale = MovieTimescale(file) /\ ev.dur_ms = MovieDurationMs(file), "movie-level accessors",
                        <<ev.res, ev.timescale, ev.dur_ms, MovieDurationMs(file)>>)
             ELSE Check(ev.res # "panic", "movie-level accessor panicked", ev.res)
          /\ Stutter

\* determinism / equality observations made by the harness on opaque values (C15, C12)
TSame == /\ IsEvent("same")
         /\ Check(ev.same, ev.what, ev.detail)
         /\ Stutter

TNext == TReset \/ TFile \/ TOpen \/ TCount \/ TRead \/ TOffset \/ TMeta \/ TMovie \/ TSame
TSpec == TInit /\ [][TNext]_vars

Accepted == TLCGet("stats").diameter - 1 = Len(Rec)
            \/ PrintT(ToJson(<<"STUCK", TLCGet("stats").diameter, Len(Rec),
                        IF TLCGet("stats").diameter <= Len(Rec) THEN Rec[TLCGet("stats").diameter].e ELSE "-">>))
=============================================================================
