SPECIFICATION Spec
CONSTANTS
  Structures <- MixStructures
  TrexDurs <- TrexBoth
  Bases = {"moof", "end"}
  DurModes = {"mixA", "mixB", "mixC"}
  CtsModes = {"none"}
  TfdtVs = {0}
  Orders = {"asc", "desc"}
  TrexPerTrack = FALSE
  MdatFirsts = {FALSE, TRUE}
  Deliveries = {"one", "split"}
INVARIANT Emit
CHECK_DEADLOCK FALSE
