SPECIFICATION ISpec
CONSTANTS
  WB = 1
  MovieTs <- Three
  StartPos <- Pos216
  FtypLen = 24
  Confs <- Confs2
  Alphabet <- AlphaPos
  MaxSamples = 3
  MaxRejects = 0
  FixEmptyChunk = TRUE
  FixStss = TRUE
  FixTkhd = TRUE
  FixFlushOrder = TRUE
  MaxFaults = 0
INVARIANTS NoPanic OutputWellFormed OutputDecodes EmitCase
PROPERTY RejectsInvisible
CHECK_DEADLOCK FALSE
