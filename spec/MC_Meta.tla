------------------------------ MODULE MC_Meta ------------------------------
(***************************************************************************)
(* C18, generator: iTunes-style metadata in every combination of the four  *)
(* items (absent / encodings / payload lengths incl. empty and 300 bytes), *)
(* unknown items around them, handler types, meta with and without the     *)
(* version/flags word, item order, and movies without ilst / meta / udta.  *)
(* Rendered by the specification; on the model TLC checks that the         *)
(* specification's decoder returns the logical tags (MetaRoundTrip); the   *)
(* real reader's accessors are validated by Trace_Read against Meta.tla.   *)
(***************************************************************************)
EXTENDS Movie, Reader, Json, SequencesExt

CONSTANTS Titles, Years, Posters, Summaries, Unknowns, Shapes, Orders,
          Hdrs,      \* which metadata boxes get 64-bit size headers: "small" | "data" | "item" | "all"
          MMetas     \* a meta box directly in moov next to the user data: "none" | "mdtaBefore" | "mdirAfter" | "mdirBefore"

Txt(n) == [i \in 1..n |-> 97 + (i % 26)]
Bin(n) == [i \in 1..n |-> (i * 37) % 256]
TEXT == <<1>>
BINARY == <<>>
IMAGE == <<13>>

TitleV == [ absent |-> None, empty |-> Some([type |-> TEXT, data |-> <<>>]), short |-> Some([type |-> TEXT, data |-> <<84>>]),
            long |-> Some([type |-> TEXT, data |-> Txt(300)]),
            \* text whose last byte is NUL, and the single NUL: the accessor returns the bytes of the data box as they are
            nulend |-> Some([type |-> TEXT, data |-> <<84, 105, 0>>]), nul |-> Some([type |-> TEXT, data |-> <<0>>]) ]
YearV == [ absent |-> None,
           text2008 |-> Some([type |-> TEXT, data |-> <<50, 48, 48, 56>>]),
           bin2008 |-> Some([type |-> BINARY, data |-> <<0, 0, 7, 216>>]),
           textempty |-> Some([type |-> TEXT, data |-> <<>>]),
           textabc |-> Some([type |-> TEXT, data |-> <<97, 98, 99>>]),
           bin3 |-> Some([type |-> BINARY, data |-> <<0, 7, 216>>]),
           textutf |-> Some([type |-> TEXT, data |-> <<50, 48, 226, 130, 172, 56, 45, 48, 53>>]),
           textbad |-> Some([type |-> TEXT, data |-> <<50, 48, 48, 255, 45, 48, 53, 45, 50>>]),
           bin0 |-> Some([type |-> BINARY, data |-> <<>>]),
           bin1 |-> Some([type |-> BINARY, data |-> <<9>>]),
           bin5 |-> Some([type |-> BINARY, data |-> <<0, 0, 7, 216, 1>>]),
           textmax |-> Some([type |-> TEXT, data |-> <<52, 50, 57, 52, 57, 54, 55, 50, 57, 53>>]),
           textover |-> Some([type |-> TEXT, data |-> <<52, 50, 57, 52, 57, 54, 55, 50, 57, 54>>]),
           text65536 |-> Some([type |-> TEXT, data |-> <<54, 53, 53, 51, 54>>]),
           text007 |-> Some([type |-> TEXT, data |-> <<48, 48, 55>>]),
           binmax |-> Some([type |-> BINARY, data |-> <<255, 255, 255, 255>>]),
           \* the binary form whose four bytes happen to be ASCII digits: still the big-endian number
           \* big-endian integer type (21): not one of the two forms of a year
           binzero |-> Some([type |-> BINARY, data |-> <<0, 0, 0, 0>>]),     \* the year 0, present
           int0 |-> Some([type |-> <<21>>, data |-> <<>>]),
           int4 |-> Some([type |-> <<21>>, data |-> <<0, 0, 7, 216>>]),
           bindigits |-> Some([type |-> BINARY, data |-> <<50, 48, 48, 56>>]) ]
PosterV == [ absent |-> None, empty |-> Some([type |-> IMAGE, data |-> <<>>]), one |-> Some([type |-> IMAGE, data |-> <<137>>]),
             big |-> Some([type |-> IMAGE, data |-> Bin(300)]) ]
SummaryV == [ absent |-> None, short |-> Some([type |-> TEXT, data |-> <<115>>]),
              nulend |-> Some([type |-> TEXT, data |-> <<115, 32, 0>>]),
              utf8 |-> Some([type |-> TEXT, data |-> <<195, 169, 226, 130, 172, 240, 159, 142, 172, 32, 111, 107>>]) ]
UnkItem(i) == [cc |-> <<169, 116, 111, 111 + i>>, type |-> TEXT, data |-> <<120, 121>>]

VARIABLES title, year, poster, summary, unk, shape, order, hdr, mmeta, out
vars == <<title, year, poster, summary, unk, shape, order, hdr, mmeta, out, file>>

Known4 ==
  (IF TitleV[title].some THEN <<[cc |-> CNAM] @@ TitleV[title].v>> ELSE <<>>)
  \o (IF YearV[year].some THEN <<[cc |-> CDAY] @@ YearV[year].v>> ELSE <<>>)
  \o (IF PosterV[poster].some THEN <<[cc |-> COVR] @@ PosterV[poster].v>> ELSE <<>>)
  \o (IF SummaryV[summary].some THEN <<[cc |-> DESC] @@ SummaryV[summary].v>> ELSE <<>>)
Items ==
  LET k == IF order = "rev" THEN Rev(Known4) ELSE Known4 IN
  CASE unk = "none" -> k
    [] unk = "before" -> <<UnkItem(1)>> \o k
    [] unk = "after" -> k \o <<UnkItem(1)>>
    [] unk = "tiny" -> <<[cc |-> <<102, 114, 101, 101>>, raw |-> <<>>]>> \o k
                         \o <<[cc |-> <<122, 122, 122, 122>>, raw |-> <<1, 2, 3, 4>>], [cc |-> <<102, 114, 101, 101>>, raw |-> <<0, 0, 0>>]>>
    \* items that are not among the four tags but whose names resemble them ('ldes', 'sdes', (c)wrt, 'titl')
    [] unk = "named" -> <<[cc |-> <<169, 119, 114, 116>>, type |-> TEXT, data |-> <<119>>]>> \o k
                          \o <<[cc |-> <<108, 100, 101, 115>>, type |-> TEXT, data |-> <<108, 111, 110, 103>>],
                               [cc |-> <<115, 100, 101, 115>>, type |-> TEXT, data |-> <<115>>],
                               [cc |-> <<116, 105, 116, 108>>, type |-> TEXT, data |-> <<116>>]>>
    \* further children inside the items themselves: a `name` box after the data box of every odd item,
    \* a `free` box before the data box of every even one
    [] unk = "kids" -> [i \in 1..Len(k) |-> IF i % 2 = 1 THEN k[i] @@ [post |-> <<0, 0, 0, 0, 120, 121>>] ELSE k[i] @@ [pre |-> <<1, 2>>]]
    [] unk = "between" -> (IF Len(k) > 0 THEN <<k[1]>> ELSE <<>>) \o <<UnkItem(1), UnkItem(2)>> \o (IF Len(k) > 0 THEN Tail(k) ELSE <<>>)

ShapeV == [ mdir |-> [present |-> "full", fullbox |-> TRUE, handler |-> MDIR],
            mdirqt |-> [present |-> "full", fullbox |-> FALSE, handler |-> MDIR],
            mdta |-> [present |-> "full", fullbox |-> TRUE, handler |-> <<109, 100, 116, 97>>],
            zero |-> [present |-> "full", fullbox |-> TRUE, handler |-> <<0, 0, 0, 0>>],
            noilst |-> [present |-> "meta", fullbox |-> TRUE, handler |-> MDIR],
            noilstqt |-> [present |-> "meta", fullbox |-> FALSE, handler |-> MDIR],
            nometa |-> [present |-> "udta", fullbox |-> TRUE, handler |-> MDIR],
            noudta |-> [present |-> "none", fullbox |-> TRUE, handler |-> MDIR] ]

HdrV == [ small |-> {}, data |-> {"data"}, item |-> {"item"}, all |-> {"data", "item", "ilst", "meta", "udta"} ]
\* with the look-alike items the handler also gets a name, in Latin-1 (not valid UTF-8): "(c) Tagger"
TheMeta == [items |-> Items, large |-> HdrV[hdr]] @@ ShapeV[shape]
           @@ (IF unk = "named" THEN [hname |-> <<169, 32, 84, 97, 103, 103, 101, 114>>] ELSE [x \in {} |-> 0])

\* a movie-level meta box (ISO allows one in moov): another handler, or an 'mdir' one with OTHER tags.
\* It is not the user data: the accessors keep answering from moov/udta/meta.
OtherItems == << [cc |-> CNAM, type |-> TEXT, data |-> <<79, 84, 72, 69, 82>>], [cc |-> CDAY, type |-> TEXT, data |-> <<49, 57, 57, 57>>] >>
MovieMeta ==
  CASE mmeta = "none" -> <<>>
    [] mmeta = "mdtaBefore" -> <<MetaNode([present |-> "meta", fullbox |-> TRUE, handler |-> <<109, 100, 116, 97>>, items |-> <<>>])>>
    [] OTHER -> <<MetaNode([present |-> "full", fullbox |-> TRUE, handler |-> MDIR, items |-> OtherItems])>>
ExtraNodes == IF mmeta = "mdirAfter" THEN UdtaNodes(TheMeta) \o MovieMeta ELSE MovieMeta \o UdtaNodes(TheMeta)

Tbl1 == [ stsz |-> [size |-> 2, count |-> 1, sizes |-> <<>>], stts |-> <<[count |-> 1, delta |-> <<4>>]>>,
          ctts |-> [some |-> FALSE, entries |-> <<>>], stss |-> [some |-> FALSE, entries |-> <<>>],
          stsc |-> <<[first |-> 1, spc |-> 1, sdi |-> 1]>>, co |-> [kind |-> "stco", entries |-> <<<<>>>>] ]
Trk == << [kind |-> "avc", timescale |-> <<3, 232>>, tbl |-> Tbl1] >>
TheMovie == [mts |-> <<3, 232>>, tracks |-> Trk, order |-> AscOrder(Trk), extra |-> ExtraNodes]

\* what the accessors must return for the logical tags
Visible == ShapeV[shape].present = "full" /\ ShapeV[shape].handler = MDIR
Logical ==
  [ title |-> IF Visible /\ TitleV[title].some THEN Some(TitleV[title].v.data) ELSE None,
    year |-> IF Visible /\ YearV[year].some
             THEN (CASE year \in {"text2008", "bin2008"} -> Some(<<7, 216>>)
                     [] year = "textmax" \/ year = "binmax" -> Some(<<255, 255, 255, 255>>)
                     [] year = "text65536" -> Some(<<1, 0, 0>>)
                     [] year = "text007" -> Some(<<7>>)
                     [] year = "binzero" -> Some(<<>>)
                     [] year = "bindigits" -> Some(<<50, 48, 48, 56>>)
                     [] OTHER -> None)
             ELSE None,
    poster |-> IF Visible /\ PosterV[poster].some THEN Some(PosterV[poster].v.data) ELSE None,
    summary |-> IF Visible /\ SummaryV[summary].some THEN Some(SummaryV[summary].v.data) ELSE None ]

\* the full product of the C18 dimensions in the plain layout, plus a reduced product crossed with
\* the header widths and the movie-level meta boxes
Init == /\ \/ /\ title \in Titles /\ year \in Years /\ poster \in Posters /\ summary \in Summaries
              /\ unk \in Unknowns /\ shape \in Shapes /\ order \in Orders /\ hdr = "small" /\ mmeta = "none"
           \/ /\ title \in Titles /\ year \in (Years \cap {"absent", "text2008"}) /\ poster \in Posters /\ summary \in {"utf8"}
              /\ unk \in Unknowns /\ shape \in (Shapes \cap {"mdir", "mdirqt", "noilst"}) /\ order = "fwd"
              /\ hdr \in Hdrs /\ mmeta \in MMetas /\ (hdr # "small" \/ mmeta # "none")
        /\ RInit /\ out = [done |-> FALSE]
ImgOf(bytes) == [start |-> <<>>, len |-> FromInt(Len(bytes)), segs |-> <<[off |-> <<>>, bytes |-> bytes]>>]
Render == /\ ~out.done
          /\ \E bytes \in {RenderPlain(TheMovie, <<>>)} :
             \E f \in {DecodeInput([img |-> ImgOf(bytes), has_init |-> FALSE])} :
               /\ Open(f)
               /\ out' = [done |-> TRUE, bytes |-> bytes, fields |-> SetToSeq(FieldMapOf(bytes))]
          /\ UNCHANGED <<title, year, poster, summary, unk, shape, order, hdr, mmeta>>
Next == Render
Spec == Init /\ [][Next]_vars

\* the specification's decoder and accessor semantics return the logical tags
MetaRoundTrip == out.done => /\ file.ok
                             /\ [title |-> file.meta.title, year |-> file.meta.year, poster |-> file.meta.poster,
                                 summary |-> file.meta.summary] = Logical
Emit == out.done => PrintT("CASE " \o ToJson([file |-> out.bytes, fields |-> out.fields, title |-> title, year |-> year, poster |-> poster,
                                              summary |-> summary, unk |-> unk, shape |-> shape, order |-> order, hdr |-> hdr, mmeta |-> mmeta]))
=============================================================================
