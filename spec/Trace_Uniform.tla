--------------------------- MODULE Trace_Uniform ---------------------------
(***************************************************************************)
(* C03 on recorded executions of the real reader over UNIFORM table sets   *)
(* with up to 2^32 - 1 samples (Uniform.tla; the closed form used here is  *)
(* checked against SampleTable!Sem by MC_Uniform).  The harness builds the *)
(* movie header with the library's own box writers from the parameters in  *)
(* the `ufile` event and opens it through a sparse stream of the declared  *)
(* length; every later event is one reader call with its answer.           *)
(***************************************************************************)
EXTENDS Uniform, Json, IOUtils, TLC, TLCExt

Rec == ndJsonDeserialize(IOEnv.TRACE)
VARIABLES l, run, u
vars == <<l, run, u>>
NoU == [set |-> FALSE]
TInit == l = 1 /\ run = "" /\ u = NoU
ev == Rec[l]
IsEvent(e) == l <= Len(Rec) /\ ev.e = e /\ l' = l + 1
Fail(what, detail) == PrintT(ToJson(<<"FAIL", l, run, "C03", what, detail>>))
Check(cond, what, detail) == IF cond THEN TRUE ELSE Fail(what, detail)

TReset == IsEvent("reset") /\ run' = ev.id /\ u' = NoU
TFile == /\ IsEvent("ufile")
         /\ u' = [set |-> TRUE, n |-> ev.n, size |-> ev.size, delta |-> ev.delta, hasCts |-> ev.has_cts, cts |-> ev.cts,
                  spc |-> ev.spc, gap |-> ev.gap, base |-> ev.base, total |-> ev.total]
         /\ UNCHANGED run
TOpen == /\ IsEvent("uopen")
         /\ Check(ev.res = "ok", "a valid file does not open", <<ev.res, ev.msg>>)
         /\ UNCHANGED <<run, u>>
TCount == /\ IsEvent("ucount")
          /\ Check(ev.res = "ok" /\ ev.n = u.n, "sample_count", <<ev.res, ev.n, u.n>>)
          /\ UNCHANGED <<run, u>>
Diff(r, s) == (IF r.len = s.size THEN {} ELSE {"size"}) \cup (IF r.start = s.start THEN {} ELSE {"start"})
              \cup (IF r.dur = s.dur THEN {} ELSE {"duration"}) \cup (IF r.cts = s.cts THEN {} ELSE {"cts"})
              \cup (IF r.sync = s.sync THEN {} ELSE {"sync"})
TRead == /\ IsEvent("uread")
         /\ IF UInRange(u, ev.k)
            THEN LET s == USample(u, ev.k) IN
                 IF Leq(Add(s.off, FromInt(s.size)), u.total)
                 THEN IF ev.res = "some"
                      THEN Check(Diff(ev, s) = {}, "read_sample differs from the file's sample", <<ev.k, Diff(ev, s), u.n>>)
                      ELSE Fail("read_sample does not return the sample", <<ev.k, ev.res, ev.msg, u.n>>)
                 ELSE Check(ev.res \in {"err", "ioerr"}, "sample outside the file must be an error", <<ev.k, ev.res>>)
            ELSE Check(ev.res \in {"none", "err"}, "read_sample yields a sample for an id outside 1..count", <<ev.k, ev.res>>)
         /\ UNCHANGED <<run, u>>
TOffset == /\ IsEvent("uoffset")
           /\ IF UInRange(u, ev.k)
              THEN Check(ev.res = "ok" /\ ev.off = UOffset(u, ev.k), "sample_offset", <<ev.k, ev.res, ev.off, UOffset(u, ev.k), u.n>>)
              ELSE Check(ev.res # "panic" /\ ev.res # "ok", "sample_offset for an id outside 1..count", <<ev.k, ev.res>>)
           /\ UNCHANGED <<run, u>>

TNext == TReset \/ TFile \/ TOpen \/ TCount \/ TRead \/ TOffset
TSpec == TInit /\ [][TNext]_vars
Accepted == TLCGet("stats").diameter - 1 = Len(Rec)
            \/ PrintT(ToJson(<<"STUCK", TLCGet("stats").diameter, Len(Rec),
                        IF TLCGet("stats").diameter <= Len(Rec) THEN Rec[TLCGet("stats").diameter].e ELSE "-">>))
=============================================================================
