----------------------------- MODULE MC_Layout -----------------------------
(***************************************************************************)
(* C12.  State = the sequence of layout operations applied to a fixed      *)
(* logical movie; every step applies one more operation that is applicable *)
(* to the current box tree:                                                *)
(*   free / unknown box (with a 32- or a 64-bit size header) inserted at   *)
(*   any position of a container that                                      *)
(*   iterates over its children (top level included, after ftyp),          *)
(*   swap of two children of a container whose child order is free         *)
(*   (at top level: media data before / after the movie header),           *)
(*   64-bit size header on any box, spare bytes after the last field of a  *)
(*   fixed-layout or table box.                                            *)
(* Each reached layout is rendered to bytes (offsets stored in the file    *)
(* follow the layout).  On the model TLC checks that the specification's   *)
(* own decoder maps every layout back to the same logical samples          *)
(* (LayoutInvariant); every layout is a replay case for the real reader.   *)
(***************************************************************************)
EXTENDS Movie, Reader, Json, SequencesExt

CONSTANTS Base,       \* "plain" | "frag" | "meta"
          MaxOps,     \* number of operations applied (depth)
          OpKinds     \* subset of {"free", "unk", "swap", "large", "spare", "opt"}; "opt": optional boxes (edts/elst, mehd)

VARIABLES ops, out
vars == <<ops, out, file>>

\* ---- the logical movies ------------------------------------------------------
T1 == [ stsz |-> [size |-> 0, count |-> 4, sizes |-> <<2, 0, 3, 1>>],
        stts |-> <<[count |-> 3, delta |-> <<2>>], [count |-> 1, delta |-> <<5>>]>>,
        ctts |-> [some |-> TRUE, entries |-> <<[count |-> 1, offset |-> 0], [count |-> 2, offset |-> 3], [count |-> 1, offset |-> -1]>>],
        stss |-> [some |-> TRUE, entries |-> <<1, 3>>],
        stsc |-> <<[first |-> 1, spc |-> 1, sdi |-> 1], [first |-> 2, spc |-> 3, sdi |-> 1]>>,
        co   |-> [kind |-> "stco", entries |-> <<<<>>, <<>>>>] ]
T2 == [ stsz |-> [size |-> 2, count |-> 3, sizes |-> <<>>],
        stts |-> <<[count |-> 3, delta |-> <<4>>]>>,
        ctts |-> [some |-> FALSE, entries |-> <<>>], stss |-> [some |-> FALSE, entries |-> <<>>],
        stsc |-> <<[first |-> 1, spc |-> 2, sdi |-> 1], [first |-> 2, spc |-> 1, sdi |-> 1]>>,
        co   |-> [kind |-> "co64", entries |-> <<<<>>, <<>>>>] ]
PlainTracks == << [kind |-> "avc", timescale |-> <<3, 232>>, tbl |-> T1], [kind |-> "aac", timescale |-> <<187, 128>>, tbl |-> T2] >>
PlainMovie == [mts |-> <<3, 232>>, tracks |-> PlainTracks, order |-> InterOrder(PlainTracks), extra |-> <<>>]

FragMovie ==
  [ mts |-> <<3, 232>>,
    tracks |-> << [kind |-> "avc", timescale |-> <<3, 232>>, trexDur |-> <<7>>] >>,
    frags |-> << << [ track |-> 1, base |-> "moof", tfhdDur |-> None, tfdt |-> <<10>>, tfdtV |-> 0,
                      durs |-> Some(<<<<2>>, <<3>>>>), sizes |-> <<2, 1>>, cts |-> None, trunV |-> 0 ] >>,
                 << [ track |-> 1, base |-> "none", tfhdDur |-> Some(<<4>>), tfdt |-> <<1, 0, 0, 0, 0>>, tfdtV |-> 1,
                      durs |-> None, sizes |-> <<3, 2>>, cts |-> Some(<<<<1>>, <<2>>>>), trunV |-> 0 ] >> >> ]

\* a fragmented movie whose second run relies on the tfhd default sample size (no per-sample sizes)
FragDefMovie ==
  [ mts |-> <<3, 232>>,
    tracks |-> << [kind |-> "avc", timescale |-> <<3, 232>>, trexDur |-> <<7>>] >>,
    frags |-> << << [ track |-> 1, base |-> "moof", tfhdDur |-> None, tfdt |-> <<10>>, tfdtV |-> 0,
                      durs |-> Some(<<<<2>>, <<3>>>>), sizes |-> <<2, 1>>, cts |-> None, trunV |-> 0 ] >>,
                 << [ track |-> 1, base |-> "moof", tfhdDur |-> Some(<<4>>), tfdt |-> <<20>>, tfdtV |-> 0,
                      durs |-> None, sizes |-> <<3, 3>>, cts |-> None, trunV |-> 0, defSize |-> Some(3) ] >> >> ]
\* "fragboth": the runs are addressed from an explicit base (the start of the media data box) while the
\* default-base-is-moof flag is set as well (which is then ignored, 8.8.7.1); layout operations move
\* the media data and its moof by different amounts
FragBothMovie ==
  [FragMovie EXCEPT !.frags = << << [FragMovie.frags[1][1] EXCEPT !.base = "both"] >>, << [FragMovie.frags[2][1] EXCEPT !.base = "both"] >> >>]
\* "fragmf": the same fragmented movie with the media data of every fragment BEFORE its moof
TheFragMovie == CASE Base \in {"fragdef", "fragdefsplit"} -> FragDefMovie
                  [] Base = "fragmf" -> [mdatFirst |-> TRUE] @@ FragMovie
                  [] Base = "fragboth" -> FragBothMovie
                  [] OTHER -> FragMovie

\* ---- where operations apply -----------------------------------------------------------
IterTypes == {MOOV, TRAK, MDIA, MINF, STBL, DINF, UDTA, MVEX, MOOF, TRAF, AVC1, MP4A}
SwapTypes == {MOOV, TRAK, MDIA, MINF, STBL, TRAF}
SpareTypes == {MVHD, TKHD, MDHD, VMHD, SMHD, STTS, CTTS, STSS, STSC, STSZ, STCO, CO64, TFHD, TFDT, TRUN, MFHD, TREX}
ZZZZ == <<122, 122, 122, 122>>

OpsAt(root, p) ==
  LET n == NodeAt(root, p)
      top == p = <<>>
      iter == top \/ n.t \in IterTypes
      lo == IF top /\ Base \notin {"fragsplit", "fragdefsplit"} THEN 2 ELSE 1   \* ftyp stays first
      hi == IF top /\ Base = "plaineof" THEN Len(n.kids) ELSE Len(n.kids) + 1   \* a to-end-of-file mdat stays last
  IN (IF iter /\ "free" \in OpKinds
      THEN {[op |-> "free", path |-> p, at |-> i, len |-> ln, big |-> bg] : i \in lo..hi, ln \in {0, 5}, bg \in BOOLEAN} ELSE {})
     \cup (IF iter /\ "unk" \in OpKinds
           THEN {[op |-> "unk", path |-> p, at |-> i, cc |-> ZZZZ, len |-> 3, big |-> bg] : i \in lo..hi, bg \in BOOLEAN} ELSE {})
     \cup (IF "swap" \in OpKinds /\ ~top /\ n.t \in SwapTypes
           THEN {[op |-> "swap", path |-> p, i |-> i, j |-> j] : i \in 1..Len(n.kids), j \in 1..Len(n.kids)} \
                {x \in {[op |-> "swap", path |-> p, i |-> i, j |-> j] : i \in 1..Len(n.kids), j \in 1..Len(n.kids)} : x.i >= x.j}
           ELSE {})
     \cup (IF "swap" \in OpKinds /\ top /\ Base \in {"plain", "plainone"}
           THEN {[op |-> "swap", path |-> p, i |-> i, j |-> j] : i \in 2..Len(n.kids), j \in 2..Len(n.kids)} \
                {x \in {[op |-> "swap", path |-> p, i |-> i, j |-> j] : i \in 2..Len(n.kids), j \in 2..Len(n.kids)} : x.i >= x.j}
           ELSE {})
     \cup (IF "opt" \in OpKinds /\ ~top /\ n.t = TRAK /\ \A i \in 1..Len(n.kids) : n.kids[i].t # EDTS
           THEN {[op |-> "edts", path |-> p, at |-> i, ver |-> v] : i \in 1..(Len(n.kids) + 1), v \in {0, 1, 2}} ELSE {})
     \cup (IF "opt" \in OpKinds /\ ~top /\ n.t = MVEX /\ \A i \in 1..Len(n.kids) : n.kids[i].t # MEHD
           THEN {[op |-> "mehd", path |-> p, at |-> i, ver |-> v] : i \in 1..(Len(n.kids) + 1), v \in {0, 1}} ELSE {})
     \cup (IF "large" \in OpKinds /\ ~top /\ ~n.large /\ ~n.eof THEN {[op |-> "large", path |-> p]} ELSE {})
     \cup (IF "spare" \in OpKinds /\ ~top /\ n.leaf /\ n.t \in SpareTypes /\ n.spare = <<>>
           THEN {[op |-> "spare", path |-> p, len |-> ln] : ln \in {3, 8}} ELSE {})   \* 8: room for another field / a child header

IsFrag == Base \in {"frag", "fragdef", "fragmf", "fragemsg", "fragsplit", "fragdefsplit", "fragboth"}
\* "fragsplit": the fragments as a media segment of their own (opened against the initialization
\* segment), starting with a segment type box as DASH segments do
Delivery == IF Base \in {"fragsplit", "fragdefsplit"} THEN "split" ELSE "one"
STYP == <<115, 116, 121, 112>>
\* "plainurl": the data references name an external location (a non-empty C string in dref/url)
\* "plainone": the first track alone (every kind of sample table in one stbl, which is then the last one)
OneTrack == << PlainTracks[1] >>
ThePlainMovie == IF Base = "plainone" THEN [mts |-> <<3, 232>>, tracks |-> OneTrack, order |-> AscOrder(OneTrack), extra |-> <<>>]
                 ELSE IF Base = "plainurl" THEN [urlloc |-> <<104, 116, 116, 112, 58, 47, 47, 120, 47, 121, 46, 109, 112, 52>>] @@ PlainMovie ELSE PlainMovie
BaseTree == IF IsFrag THEN FragTreeZero(TheFragMovie, Delivery) ELSE PlainTree(ThePlainMovie, ZeroOffsets(ThePlainMovie))
\* "plaineof": the media data box is the last box and says "to the end of the file" (size field 0)
\* "fragemsg": an event message box (version 0 / version 1) in front of each of the two moofs
Pre == CASE Base = "plaineof" -> <<[op |-> "eof", path |-> <<3>>]>>
         [] Base = "fragemsg" -> <<[op |-> "emsg", path |-> <<>>, at |-> 3, ver |-> 0], [op |-> "emsg", path |-> <<>>, at |-> 6, ver |-> 1]>>
         [] Base = "fragsplit" -> <<[op |-> "unk", path |-> <<>>, at |-> 1, cc |-> STYP, len |-> 8, big |-> FALSE]>>
         [] OTHER -> <<>>
Applicable(os0) == Let(Pre \o os0, LAMBDA os : Let(ApplyOps(BaseTree, os, 1), LAMBDA root : UNION {OpsAt(root, p) : p \in Paths(root)}))

RenderIt(os) == IF IsFrag THEN RenderFrag(TheFragMovie, Delivery, Pre \o os).file ELSE RenderPlain(ThePlainMovie, Pre \o os)
InitBytes == IF Delivery = "split" THEN RenderFrag(TheFragMovie, "split", <<>>).init ELSE <<>>
ImgOf(bytes) == [start |-> <<>>, len |-> FromInt(Len(bytes)), segs |-> <<[off |-> <<>>, bytes |-> bytes]>>]

\* what the specification's decoder reads back from a rendered layout, without the offsets
ViewOf(f) == [id \in {f.tracks[i].id : i \in 1..Len(f.tracks)} |->
                LET tr == f.tracks[TrackIndex(f, id)] IN
                [k \in 1..Len(tr.samples) |->
                     LET s == tr.samples[k] IN
                     [size |-> s.size, start |-> s.start, dur |-> s.dur, cts |-> s.cts, sync |-> s.sync,
                      bytes |-> Win(f.img, s.off, s.size)]]]
Decoded(bytes) == IF Delivery = "split" THEN DecodeInput([img |-> ImgOf(bytes), has_init |-> TRUE, init |-> ImgOf(InitBytes)])
                  ELSE DecodeInput([img |-> ImgOf(bytes), has_init |-> FALSE])

Init == /\ ops = <<>> /\ RInit
        /\ out = [done |-> FALSE, view |-> <<>>, bytes |-> <<>>, fields |-> <<>>]

\* apply one more operation
Apply == /\ ~out.done /\ Len(ops) < MaxOps
         /\ \E o \in Applicable(ops) : ops' = Append(ops, o)
         /\ UNCHANGED <<out, file>>
\* render the current layout and read it back with the specification's decoder
Render == /\ ~out.done
          /\ \E bytes \in {RenderIt(ops)} :
             \E f \in {Decoded(bytes)} :
               /\ Open(f)
               /\ out' = [done |-> TRUE, bytes |-> bytes, view |-> IF f.ok THEN ViewOf(f) ELSE <<"undecodable", f.why>>,
                              fields |-> SetToSeq(FieldMapOf(bytes))]
          /\ UNCHANGED ops
Next == Apply \/ Render
Spec == Init /\ [][Next]_vars

\* the reference view: the unmodified layout
RefView == ViewOf(Decoded(CASE Base \in {"fragmf", "fragemsg"} -> RenderFrag(FragMovie, "one", <<>>).file
                            [] Base = "fragsplit" -> RenderFrag(FragMovie, "split", <<>>).file
                            [] Base \in {"plaineof", "plainurl"} -> RenderPlain(PlainMovie, <<>>)
                            [] Base = "plainone" -> RenderPlain(ThePlainMovie, <<>>)
                            [] OTHER -> RenderIt(<<>>)))
LayoutInvariant == out.done => out.view = RefView
Emit == out.done => PrintT("CASE " \o ToJson([file |-> out.bytes, ops |-> ops, base |-> Base, fields |-> out.fields, init |-> InitBytes]))
=============================================================================
