----------------------------- MODULE Trace_Mux -----------------------------
(***************************************************************************)
(* Trace validation of the muxer + read-back against Mux.tla.              *)
(*                                                                         *)
(* The harness logs one ndjson event per public call at its return (error  *)
(* path included); the end event carries the RAW BYTES of the produced     *)
(* file (all of it when small, else head and tail), which are decoded here *)
(* by Iso!DecodeMovie -- the Rust side contains no parser and no oracle.   *)
(* Every event either is a step of Mux (WriteSample, RejectWrite,          *)
(* WriteEnd, ...) or it is diagnosed: a FAIL line names the property and   *)
(* the false conjunct, the observed state is adopted and validation goes   *)
(* on, so that the rest of the trace is still checked.                     *)
(***************************************************************************)
EXTENDS Mux, Iso, Codec, Json, IOUtils, TLC, TLCExt

Rec == ndJsonDeserialize(IOEnv.TRACE)

VARIABLES l,      \* next line of the trace
          run,    \* label of the current run (last reset event)
          img,    \* raw image of the current output
          aux     \* per track: expected start times, decoded Sem  (computed once per run)
vars == <<phase, cfg, tracks, file, l, run, img, aux>>

NoImg == [start |-> <<>>, len |-> <<>>, segs |-> <<>>]

TInit == MInit /\ l = 1 /\ run = "" /\ img = NoImg /\ aux = <<>>

ev == Rec[l]
IsEvent(e) == l <= Len(Rec) /\ ev.e = e /\ l' = l + 1

Fail(prop, what, detail) == PrintT(ToJson(<<"FAIL", l, run, prop, what, detail>>))
\* a check never branches the next-state relation: IF, not disjunction
Check(cond, prop, what, detail) == IF cond THEN TRUE ELSE Fail(prop, what, detail)
Note(what, detail) == PrintT(ToJson(<<"NOTE", l, run, what, detail>>))

Keep == UNCHANGED <<phase, cfg, tracks, file>>

-----------------------------------------------------------------------------
TReset == /\ IsEvent("reset")
          /\ run' = ev.id /\ phase' = "init" /\ cfg' = [timescale |-> <<>>] /\ tracks' = <<>>
          /\ file' = NoFile /\ img' = NoImg /\ aux' = <<>>

TStart == /\ IsEvent("start")
          /\ IF ev.res = "ok" /\ phase = "init" THEN Start(ev.cfg)
             ELSE Check(ev.res = "err", "C17", "write_start", ev.res) /\ Keep
          /\ UNCHANGED <<run, img, aux>>

\* After a call during which the STREAM failed (the harness made it fail; the call must report an
\* I/O error -- C10), what C01/C02/C14 say about the output no longer applies: they assume that
\* every call succeeded.  What remains is C17: no later call panics.  The run is in phase "faulted".
AfterFault(name) == Check(ev.res # "panic", "C17", "a call after a failed stream call panics", <<name, ev.msg>>) /\ Keep

TAdd == /\ IsEvent("add")
        /\ IF phase = "faulted" THEN AfterFault("add_track")
           ELSE IF ev.res = "ok" /\ phase = "open" THEN AddTrack(ev.conf)
           ELSE IF ev.res = "err" THEN RejectAdd
           ELSE Fail("C17", "add_track", ev.res) /\ Keep
        /\ UNCHANGED <<run, img, aux>>

TWrite == /\ IsEvent("write")
          /\ IF ev.fired THEN
                /\ Check(ev.res = "ioerr", "C10", "a failed stream call did not surface as an I/O error of write_sample", <<ev.fault, ev.res>>)
                /\ Check(ev.res # "panic", "C17", "write_sample", ev.res)
                /\ phase' = "faulted" /\ UNCHANGED <<cfg, tracks, file>>
             ELSE IF phase = "faulted" THEN AfterFault("write_sample")
             ELSE IF ev.res = "ok" THEN
                IF phase = "open" /\ ev.t \in 1..Len(tracks) THEN WriteSample(ev.t, ev.s)
                ELSE Fail("C01", "write_sample accepted for a track that does not exist", ev.t) /\ Keep
             ELSE IF ev.res = "err" THEN RejectWrite
             ELSE Fail("C17", "write_sample", ev.res) /\ Keep
          /\ UNCHANGED <<run, img, aux>>

\* payload of a sample as found in the produced bytes (when materialised and logged)
PayloadOK(im, off, len, b) ==
  len = 0 \/ b = <<>> \/ SegOf(im, off, len) = 0 \/ Win(im, off, len) = b

AuxOf(f) == [t \in 1..Len(tracks) |->
               [ starts |-> StartSeq(tracks[t].samples),
                 sem    |-> IF f.ok /\ t <= Len(f.traks) /\ Consistent(f.traks[t].tbl)
                            THEN Sem(f.traks[t].tbl) ELSE <<>> ]]

\* the heavy values are bound with \E over singleton sets: TLC then computes each exactly once
TEnd == /\ IsEvent("end")
        /\ IF ev.faulted THEN AfterFault("write_end") /\ UNCHANGED <<img, aux>>
           ELSE IF ev.res = "ok" THEN
             \E f \in {DecodeMovie(ev.img)} :
             \E wf \in {WellFormedFailures(f)} :
             \E df \in {DecodeFailures(f, tracks, LAMBDA off, len, b : PayloadOK(ev.img, off, len, b))} :
             \E cf \in {IF f.ok THEN ConfigFailures(f, cfg, tracks) ELSE {}} :
                /\ img' = ev.img
                /\ aux' = AuxOf(f)
                /\ IF phase = "open" /\ wf = {} /\ df = {}
                   THEN WriteEnd(f, LAMBDA off, len, b : PayloadOK(ev.img, off, len, b))
                   ELSE /\ Check(wf = {}, "C02", "output not well-formed", wf)
                        /\ Check(df = {}, "C01", "output does not decode to the history (tracks)", df)
                        /\ phase' = "ended" /\ file' = f /\ UNCHANGED <<cfg, tracks>>
                /\ Check(cf = {}, "C14", "configuration not preserved in the output", cf)
           ELSE /\ Check(ev.res = "err", "C17", "write_end", ev.res)
                /\ Check(ev.res # "err" \/ ~ev.allok, "C17", "write_end failed although every call before it succeeded", ev.msg)
                /\ phase' = "failed" /\ UNCHANGED <<cfg, tracks, file, img, aux>>
        /\ UNCHANGED run

-----------------------------------------------------------------------------
(* read-back through the library's reader *)
TOpen == /\ IsEvent("open")
         /\ IF ev.res = "ok"
            THEN /\ Check(ev.tracks = [i \in 1..Len(tracks) |-> i],
                          "C01", "reader reports other track ids than 1..n", ev.tracks)
                 /\ LET vf == ViewFailures(ev.view, cfg, tracks) IN
                    Check(vf = {}, "C14", "reader reports a different configuration", vf)
            ELSE Fail("C01", "produced file does not open", ev.res)
         /\ Keep /\ UNCHANGED <<run, img, aux>>

TCount == /\ IsEvent("count")
          /\ IF ev.t \in 1..Len(tracks)
             THEN Check(ev.res = "ok" /\ ev.n = ExpectedCount(ev.t), "C01", "sample_count", <<ev.t, ev.res, ev.n>>)
             ELSE Check(ev.res = "err", "C01", "sample_count of unknown track", <<ev.t, ev.res>>)
          /\ Keep /\ UNCHANGED <<run, img, aux>>

ReadMatches(t, k, r) ==
  LET s == tracks[t].samples[k] IN
  /\ r.len = s.len /\ r.h = s.h /\ r.b = s.b
  /\ r.dur = s.dur /\ r.cts = s.cts /\ r.sync = s.sync
  /\ r.start = aux[t].starts[k]

TRead == /\ IsEvent("read")
         /\ IF ev.t \in 1..Len(tracks) /\ ev.k \in 1..Len(tracks[ev.t].samples)
            THEN Check(ev.res = "some" /\ ReadMatches(ev.t, ev.k, ev.s),
                       "C01", "read_sample differs from the sample written", <<ev.t, ev.k, ev.res>>)
            ELSE Check(ev.res \in {"none", "err"},
                       "C01", "read_sample yields a sample for an id outside 1..count", <<ev.t, ev.k, ev.res>>)
         /\ Keep /\ UNCHANGED <<run, img, aux>>

TOffset == /\ IsEvent("offset")
           /\ IF ev.t \in 1..Len(tracks) /\ ev.k \in 1..Len(tracks[ev.t].samples) /\ ev.t <= Len(aux) /\ ev.k <= Len(aux[ev.t].sem)
              THEN Check(ev.res = "ok" /\ ev.off = aux[ev.t].sem[ev.k].off,
                         "C01", "sample_offset differs from the decoded tables", <<ev.t, ev.k, ev.res>>)
              ELSE TRUE
           /\ Keep /\ UNCHANGED <<run, img, aux>>

\* muxing the same history twice / opening the same bytes twice (C15 determinism)
TTwice == /\ IsEvent("twice")
          /\ Check(ev.same, "C15", ev.what, ev.detail)
          /\ Keep /\ UNCHANGED <<run, img, aux>>

TNext == TReset \/ TStart \/ TAdd \/ TWrite \/ TEnd \/ TOpen \/ TCount \/ TRead \/ TOffset \/ TTwice
TSpec == TInit /\ [][TNext]_vars

\* acceptance: every line was consumed (one state per line plus the initial state)
Accepted == TLCGet("stats").diameter - 1 = Len(Rec)
            \/ PrintT(ToJson(<<"STUCK", TLCGet("stats").diameter, Len(Rec),
                        IF TLCGet("stats").diameter <= Len(Rec) THEN Rec[TLCGet("stats").diameter].e ELSE "-">>))
=============================================================================
