--------------------------- MODULE SampleTable ---------------------------
(***************************************************************************)
(* Reference semantics of the ISO/IEC 14496-12 sample tables               *)
(* (stsz, stts, ctts, stss, stsc, stco/co64), written from the standard    *)
(* (clauses 8.6.1, 8.6.2, 8.7.3-8.7.5), NOT from the library's lookup code. *)
(*                                                                         *)
(* A table set is a record                                                 *)
(*   [ stsz |-> [size, count, sizes],    size = 0 : per-sample sizes       *)
(*     stts |-> Seq([count, delta]),     delta is a Big                    *)
(*     ctts |-> [some, entries : Seq([count, offset])],                    *)
(*     stss |-> [some, entries : Seq(Nat)],                                *)
(*     stsc |-> Seq([first, spc, sdi]),                                    *)
(*     co   |-> [kind, entries : Seq(Big)] ]                               *)
(* Counts, sizes, indices are TLC integers; offsets and times are Bigs.    *)
(***************************************************************************)
EXTENDS Naturals, Integers, Sequences, Big

N(t) == t.stsz.count

SizeOf(t, k) == IF t.stsz.size > 0 THEN t.stsz.size ELSE t.stsz.sizes[k]

RECURSIVE SumCountsR(_, _, _)
SumCountsR(es, i, acc) == IF i > Len(es) THEN acc ELSE SumCountsR(es, i + 1, acc + es[i].count)
SumCounts(es) == SumCountsR(es, 1, 0)

StrictlyIncreasing(s) == \A i \in 1..(Len(s) - 1) : s[i] < s[i + 1]

-----------------------------------------------------------------------------
(* sample-to-chunk: run r covers chunks first[r] .. first[r+1]-1, the last *)
(* run extends to the last chunk C.                                        *)

StscShapeOK(t) ==
  LET sc == t.stsc  C == Len(t.co.entries) IN
  /\ (N(t) > 0 => Len(sc) > 0)
  /\ (Len(sc) > 0 => sc[1].first = 1)
  /\ \A r \in 1..Len(sc) : sc[r].spc >= 1 /\ sc[r].first >= 1 /\ sc[r].first <= C
  /\ \A r \in 1..(Len(sc) - 1) : sc[r].first < sc[r + 1].first

RunEnd(t, r) == IF r < Len(t.stsc) THEN t.stsc[r + 1].first - 1 ELSE Len(t.co.entries)

\* samples-per-chunk of every chunk, as a sequence of length C (needs StscShapeOK)
RECURSIVE SpcSeqR(_, _, _)
SpcSeqR(t, r, acc) ==
  IF r > Len(t.stsc) THEN acc
  ELSE SpcSeqR(t, r + 1, acc \o [c \in 1..(RunEnd(t, r) - t.stsc[r].first + 1) |-> t.stsc[r].spc])
SpcSeq(t) == SpcSeqR(t, 1, <<>>)

RECURSIVE IntSumR(_, _, _)
IntSumR(s, i, acc) == IF i > Len(s) THEN acc ELSE IntSumR(s, i + 1, acc + s[i])
IntSum(s) == IntSumR(s, 1, 0)

\* First(c): number of the first sample of chunk c  (prefix sums of SpcSeq)
RECURSIVE FirstSeqR(_, _, _, _)
FirstSeqR(spc, c, nxt, acc) ==
  IF c > Len(spc) THEN acc ELSE FirstSeqR(spc, c + 1, nxt + spc[c], Append(acc, nxt))
FirstSeq(spc) == FirstSeqR(spc, 1, 1, <<>>)

\* chunk of every sample, as a sequence of length n
RECURSIVE ChunkOfSeqR(_, _, _)
ChunkOfSeqR(spc, c, acc) ==
  IF c > Len(spc) THEN acc ELSE ChunkOfSeqR(spc, c + 1, acc \o [j \in 1..spc[c] |-> c])
ChunkOfSeq(spc) == ChunkOfSeqR(spc, 1, <<>>)

-----------------------------------------------------------------------------
(* run-length tables expanded to one value per sample                      *)
RECURSIVE ExpandR(_, _, _)
ExpandR(es, i, acc) ==
  IF i > Len(es) THEN acc ELSE ExpandR(es, i + 1, acc \o [j \in 1..es[i].count |-> es[i]])
Expand(es) == ExpandR(es, 1, <<>>)

\* prefix sums of Big deltas: Start[k] = sum of deltas before k
RECURSIVE StartsR(_, _, _, _)
StartsR(ds, k, cur, acc) ==
  IF k > Len(ds) THEN acc ELSE StartsR(ds, k + 1, Add(cur, ds[k].delta), Append(acc, cur))
Starts(ds) == StartsR(ds, 1, <<>>, <<>>)

\* offset of every sample inside its chunk (sum of sizes of earlier samples of that chunk), as Bigs:
\* a chunk may hold more than 2^31 bytes
RECURSIVE IntraR(_, _, _, _, _)
IntraR(t, ch, k, cur, acc) ==
  IF k > Len(ch) THEN acc
  ELSE LET c0 == IF k > 1 /\ ch[k - 1] = ch[k] THEN cur ELSE <<>>
       IN IntraR(t, ch, k + 1, Add(c0, FromInt(SizeOf(t, k))), Append(acc, c0))
Intra(t, ch) == IntraR(t, ch, 1, <<>>, <<>>)

-----------------------------------------------------------------------------
(* mutual consistency of the table set (the C02 per-track clause, and the  *)
(* precondition of C03).  Each conjunct is named for diagnostics.          *)

SizesOK(t)  == /\ t.stsz.count >= 0
               /\ (t.stsz.size = 0 => Len(t.stsz.sizes) = t.stsz.count)
               /\ (t.stsz.size = 0 => \A k \in 1..Len(t.stsz.sizes) : t.stsz.sizes[k] >= 0)
SttsOK(t)   == /\ \A i \in 1..Len(t.stts) : t.stts[i].count >= 0
               /\ SumCounts(t.stts) = N(t)
CttsOK(t)   == ~t.ctts.some
               \/ (/\ \A i \in 1..Len(t.ctts.entries) : t.ctts.entries[i].count >= 0
                   /\ SumCounts(t.ctts.entries) = N(t))
StssOK(t)   == ~t.stss.some
               \/ (/\ StrictlyIncreasing(t.stss.entries)
                   /\ \A i \in 1..Len(t.stss.entries) :
                        t.stss.entries[i] >= 1 /\ t.stss.entries[i] <= N(t))
StscOK(t)   == /\ StscShapeOK(t)
               /\ IntSum(SpcSeq(t)) = N(t)
               /\ (N(t) = 0 => Len(t.co.entries) = 0 \/ Len(t.stsc) > 0)

Consistent(t) == SizesOK(t) /\ SttsOK(t) /\ CttsOK(t) /\ StssOK(t) /\ StscOK(t)

ConsistencyFailures(t) ==
  (IF SizesOK(t) THEN {} ELSE {"stsz"}) \cup
  (IF SizesOK(t) /\ SttsOK(t) THEN {} ELSE {"stts"}) \cup
  (IF SizesOK(t) /\ CttsOK(t) THEN {} ELSE {"ctts"}) \cup
  (IF SizesOK(t) /\ StssOK(t) THEN {} ELSE {"stss"}) \cup
  (IF SizesOK(t) /\ StscOK(t) THEN {} ELSE {"stsc"})

-----------------------------------------------------------------------------
(* Sem(t): the k-th sample of a consistent table set, for all k at once.   *)
(*   off   = offset of k's chunk + sizes of the earlier samples of the chunk *)
(*   start = sum of the deltas of the samples before k                     *)
(*   dur   = delta of k ; cts = composition offset of k (0 without ctts)    *)
(*   sync  = k listed in stss, or no stss                                  *)
Sem(t) ==
  LET n    == N(t)
      spc  == SpcSeq(t)
      ch   == ChunkOfSeq(spc)
      intr == Intra(t, ch)
      ds   == Expand(t.stts)
      st   == Starts(ds)
      cs   == IF t.ctts.some THEN Expand(t.ctts.entries) ELSE <<>>
      syn  == IF t.stss.some THEN {t.stss.entries[i] : i \in 1..Len(t.stss.entries)} ELSE {}
  IN [k \in 1..n |->
        [ off   |-> Add(t.co.entries[ch[k]], intr[k]),
          size  |-> SizeOf(t, k),
          start |-> st[k],
          dur   |-> ds[k].delta,
          cts   |-> IF t.ctts.some THEN cs[k].offset ELSE 0,
          sync  |-> (~t.stss.some) \/ (k \in syn),
          chunk |-> ch[k] ] ]

\* total media duration = sum of all deltas
RECURSIVE MediaDurR(_, _, _)
MediaDurR(es, i, acc) ==
  IF i > Len(es) THEN acc ELSE MediaDurR(es, i + 1, Add(acc, MulSmall(es[i].delta, 1) ))
\* count * delta with count a TLC int possibly > 2^22: via Mul
RECURSIVE MediaDur2R(_, _, _)
MediaDur2R(es, i, acc) ==
  IF i > Len(es) THEN acc ELSE MediaDur2R(es, i + 1, Add(acc, Mul(es[i].delta, FromInt(es[i].count))))
MediaDuration(t) == MediaDur2R(t.stts, 1, <<>>)

\* extent [off, off+len) of every chunk: len = sum of the sizes of its samples
ChunkLens(t) ==
  LET spc == SpcSeq(t)  fs == FirstSeq(spc) IN
  [c \in 1..Len(spc) |-> IntSum([j \in 1..spc[c] |-> SizeOf(t, fs[c] + j - 1)])]
\* the same as Bigs (chunks of 2 GiB and more)
ChunkLensBig(t) ==
  LET spc == SpcSeq(t)  fs == FirstSeq(spc) IN
  [c \in 1..Len(spc) |-> Sum([j \in 1..spc[c] |-> FromInt(SizeOf(t, fs[c] + j - 1))])]
=============================================================================
