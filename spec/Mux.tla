-------------------------------- MODULE Mux --------------------------------
(***************************************************************************)
(* Property-level specification of the muxer and of reading its output     *)
(* back (C01, C02, C13, C14, C15-determinism, C17-"when every call         *)
(* succeeds").  It knows nothing about chunk policies, run-length choices, *)
(* stco vs co64 or header versions: WriteEnd admits ANY file that is       *)
(* well-formed and decodes to the history, so a benign change of policy    *)
(* cannot raise an alarm while a lost sample, an inconsistent table or a   *)
(* truncated value cannot be accepted.                                     *)
(*                                                                         *)
(* State: phase, cfg (movie configuration), tracks (per track: its         *)
(* configuration and the sequence of samples accepted so far), file (the   *)
(* decoded output after write_end, in the abstract structure produced by   *)
(* Iso!DecodeMovie for real bytes and by MuxImpl!FileOf for the model).    *)
(* A sample is [len, h, b, dur, cts, sync]: payload length, 64-bit payload *)
(* hash, the payload itself when short (else <<>>), duration (Big),        *)
(* rendering offset (signed int) and sync flag.                            *)
(***************************************************************************)
EXTENDS Naturals, Integers, Sequences, FiniteSets, Big, SampleTable

VARIABLES phase, cfg, tracks, file
mvars == <<phase, cfg, tracks, file>>

NoFile == [ok |-> FALSE, why |-> "no file"]

MInit == phase = "init" /\ cfg = [timescale |-> <<>>] /\ tracks = <<>> /\ file = NoFile

Start(c) == /\ phase = "init"
            /\ phase' = "open" /\ cfg' = c /\ tracks' = <<>> /\ file' = NoFile

AddTrack(conf) == /\ phase = "open"
                  /\ tracks' = Append(tracks, [conf |-> conf, samples |-> <<>>])
                  /\ UNCHANGED <<phase, cfg, file>>

\* a rejected add_track leaves no trace
RejectAdd == phase = "open" /\ UNCHANGED mvars

WriteSample(t, s) == /\ phase = "open"
                     /\ t \in 1..Len(tracks)
                     /\ tracks' = [tracks EXCEPT ![t].samples = Append(@, s)]
                     /\ UNCHANGED <<phase, cfg, file>>

\* a rejected write_sample (e.g. unknown track id) leaves no trace
RejectWrite == phase = "open" /\ UNCHANGED mvars

-----------------------------------------------------------------------------
(* what the k-th sample of track t must read back as *)
RECURSIVE StartOfR(_, _, _, _)
StartOfR(ss, k, i, acc) == IF i >= k THEN acc ELSE StartOfR(ss, k, i + 1, Add(acc, ss[i].dur))
StartOf(ss, k) == StartOfR(ss, k, 1, <<>>)

RECURSIVE TotalDurR(_, _, _)
TotalDurR(ss, i, acc) == IF i > Len(ss) THEN acc ELSE TotalDurR(ss, i + 1, Add(acc, ss[i].dur))
TotalDur(ss) == TotalDurR(ss, 1, <<>>)

\* prefix sums of durations, one per sample
RECURSIVE StartSeqR(_, _, _, _)
StartSeqR(ss, i, cur, acc) ==
  IF i > Len(ss) THEN acc ELSE StartSeqR(ss, i + 1, Add(cur, ss[i].dur), Append(acc, cur))
StartSeq(ss) == StartSeqR(ss, 1, <<>>, <<>>)

-----------------------------------------------------------------------------
(* C02: structural validity and self-consistency of a decoded file f.      *)
(* Every clause is a named predicate; Failures(f, ...) returns the names   *)
(* of the false ones for diagnostics.                                      *)

\* top-level boxes tile [start, len) (guaranteed by the decoder when f.ok),
\* ftyp first, exactly one moov, at least one mdat when there is payload
TopOK(f) == f.ok

\* [lo, hi) of the payload of mdat i
MdatLo(f, i) == Add(f.mdats[i].off, FromInt(f.mdats[i].h))
MdatHi(f, i) == Add(f.mdats[i].off, f.mdats[i].size)

ChunkInMdat(f, off, len) ==
  len = <<>> \/ \E i \in 1..Len(f.mdats) :
               Leq(MdatLo(f, i), off) /\ Leq(Add(off, len), MdatHi(f, i))

TrackTablesOK(f, t) == Consistent(f.traks[t].tbl)

ChunksInside(f, t) ==
  LET tb == f.traks[t].tbl  cl == ChunkLensBig(tb) IN
  \A c \in 1..Len(tb.co.entries) : ChunkInMdat(f, tb.co.entries[c], cl[c])

\* all non-empty chunks of all tracks, as [lo, hi) pairs
AllChunks(f) ==
  UNION { LET tb == f.traks[t].tbl  cl == ChunkLensBig(tb) IN
          { <<tb.co.entries[c], Add(tb.co.entries[c], cl[c]), t, c>> :
               c \in {c \in 1..Len(tb.co.entries) : cl[c] # <<>>} }
        : t \in 1..Len(f.traks) }
ChunksDisjoint(f) ==
  \A x \in AllChunks(f), y \in AllChunks(f) :
     (x[3] # y[3] \/ x[4] # y[4]) => (Leq(x[2], y[1]) \/ Leq(y[2], x[1]))

MdhdDurOK(f, t) == f.traks[t].mdhd.duration = MediaDuration(f.traks[t].tbl)

\* |tkhd.duration - S * mts / tts| <= 1   <=>   |tkhd * tts - S * mts| <= tts
TkhdDurOK(f, t) ==
  LET tr == f.traks[t]  S == MediaDuration(tr.tbl)  tts == tr.mdhd.timescale  mts == f.mvhd.timescale IN
  tts # <<>> /\ Leq(AbsDiff(Mul(tr.tkhd.duration, tts), Mul(S, mts)), tts)

\* movie duration = longest track, converted, within one tick:
\*   every track: (mvhd + 1) * tts >= S * mts ; some track: (mvhd - 1) * tts <= S * mts
MvhdDurOK(f) ==
  LET mts == f.mvhd.timescale  d == f.mvhd.duration  n == Len(f.traks)
      S(t) == MediaDuration(f.traks[t].tbl)  tts(t) == f.traks[t].mdhd.timescale IN
  IF n = 0 THEN d = <<>>
  ELSE /\ \A t \in 1..n : Leq(Mul(S(t), mts), Mul(Add(d, <<1>>), tts(t)))
       /\ \E t \in 1..n : d = <<>> \/ Leq(Mul(Sub(d, <<1>>), tts(t)), Mul(S(t), mts))

WellFormedFailures(f) ==
  IF ~f.ok THEN {"structure: " \o f.why}
  ELSE LET n == Len(f.traks)
           bad(t) == ConsistencyFailures(f.traks[t].tbl) IN
       (UNION {bad(t) : t \in 1..n})
       \cup (IF \A t \in 1..n : bad(t) = {}
             THEN (IF \A t \in 1..n : ChunksInside(f, t) THEN {} ELSE {"chunk outside mdat payload"})
                  \cup (IF ChunksDisjoint(f) THEN {} ELSE {"chunks overlap"})
                  \cup (IF \A t \in 1..n : MdhdDurOK(f, t) THEN {} ELSE {"mdhd.duration"})
                  \cup (IF \A t \in 1..n : TkhdDurOK(f, t) THEN {} ELSE {"tkhd.duration"})
                  \cup (IF MvhdDurOK(f) THEN {} ELSE {"mvhd.duration"})
             ELSE {})
WellFormed(f) == WellFormedFailures(f) = {}

-----------------------------------------------------------------------------
(* C01 / C13: f decodes to the history.  PayloadAt(off, len) gives the     *)
(* payload bytes of the file when they are materialised (else <<>> with    *)
(* avail FALSE); it is a parameter because the model and the trace differ. *)
TrackDecodes(f, t, ss, payloadOK(_, _, _)) ==
  LET tb == f.traks[t].tbl IN
  /\ f.traks[t].tkhd.track_id = FromInt(t)
  /\ Consistent(tb)
  /\ N(tb) = Len(ss)
  /\ LET sem == Sem(tb)  st == StartSeq(ss) IN
     \A k \in 1..Len(ss) :
        /\ sem[k].size = ss[k].len
        /\ sem[k].dur = ss[k].dur
        /\ sem[k].cts = ss[k].cts
        /\ sem[k].sync = ss[k].sync
        /\ sem[k].start = st[k]
        /\ payloadOK(sem[k].off, ss[k].len, ss[k].b)

Decodes(f, trks, payloadOK(_, _, _)) ==
  /\ f.ok
  /\ Len(f.traks) = Len(trks)
  /\ \A t \in 1..Len(trks) : TrackDecodes(f, t, trks[t].samples, payloadOK)

\* diagnostics: per track, the first conjunct of TrackDecodes that is false
SampleMismatch(sem, st, ss, k, payloadOK(_, _, _)) ==
  (IF sem[k].size = ss[k].len THEN {} ELSE {"size"})
  \cup (IF sem[k].dur = ss[k].dur THEN {} ELSE {"duration"})
  \cup (IF sem[k].cts = ss[k].cts THEN {} ELSE {"rendering offset"})
  \cup (IF sem[k].sync = ss[k].sync THEN {} ELSE {"sync"})
  \cup (IF sem[k].start = st[k] THEN {} ELSE {"start time"})
  \cup (IF payloadOK(sem[k].off, ss[k].len, ss[k].b) THEN {} ELSE {"payload bytes"})
TrackDecodeFailure(f, t, ss, payloadOK(_, _, _)) ==
  LET tb == f.traks[t].tbl IN
  IF f.traks[t].tkhd.track_id # FromInt(t) THEN <<t, "track id">>
  ELSE IF ~Consistent(tb) THEN <<t, "tables inconsistent">>
  ELSE IF N(tb) # Len(ss) THEN <<t, "sample count", N(tb), Len(ss)>>
  ELSE LET sem == Sem(tb)  st == StartSeq(ss)
           bad == {k \in 1..Len(ss) : SampleMismatch(sem, st, ss, k, payloadOK) # {}} IN
       IF bad = {} THEN <<t, "ok">>
       ELSE LET k == CHOOSE k \in bad : \A j \in bad : k <= j IN
            <<t, "sample", k, SampleMismatch(sem, st, ss, k, payloadOK)>>
DecodeFailures(f, trks, payloadOK(_, _, _)) ==
  IF ~f.ok THEN {}      \* reported by WellFormedFailures
  ELSE IF Len(f.traks) # Len(trks) THEN {<<0, "track count", Len(f.traks), Len(trks)>>}
  ELSE { TrackDecodeFailure(f, t, trks[t].samples, payloadOK) :
            t \in {t \in 1..Len(trks) : ~TrackDecodes(f, t, trks[t].samples, payloadOK)} }

\* (Holds forces TLC to evaluate a state predicate as a value instead of unfolding its
\* disjunctions as alternatives of the next-state relation.)
Holds(p) == (p = TRUE)
WriteEnd(f, payloadOK(_, _, _)) ==
  /\ phase = "open"
  /\ Holds(WellFormed(f) /\ Decodes(f, tracks, payloadOK))
  /\ phase' = "ended" /\ file' = f /\ UNCHANGED <<cfg, tracks>>

-----------------------------------------------------------------------------
(* Reading back (the reader half of C01): results depend on the history only *)
Expected(t, k) ==
  IF t \in 1..Len(tracks) /\ k \in 1..Len(tracks[t].samples)
  THEN LET s == tracks[t].samples[k] IN
       [ some |-> TRUE, len |-> s.len, h |-> s.h, b |-> s.b, dur |-> s.dur, cts |-> s.cts,
         sync |-> s.sync, start |-> StartOf(tracks[t].samples, k) ]
  ELSE [ some |-> FALSE ]

ExpectedCount(t) == Len(tracks[t].samples)
=============================================================================
