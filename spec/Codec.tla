------------------------------- MODULE Codec -------------------------------
(***************************************************************************)
(* Configuration view (C14): what a track / movie configuration must look  *)
(* like (a) in the bytes of the produced file, decoded here from the stsd  *)
(* sample entries by the specification's own decoder, and (b) through the  *)
(* reader's accessors.                                                      *)
(*                                                                         *)
(* A track configuration is                                                *)
(*   [kind, ttype, timescale, lang, w, h, sps, pps, profile, freq, chan,   *)
(*    bitrate]   (fields that do not apply to a kind are 0 / <<>>).        *)
(***************************************************************************)
EXTENDS Naturals, Integers, Sequences, FiniteSets, Wire, WireCodec, SampleTable

KindFourCC(kind) == CASE kind = "avc" -> AVC1 [] kind = "hevc" -> HEV1 [] kind = "vp9" -> VP09
                      [] kind = "aac" -> MP4A [] kind = "ttxt" -> TX3G
KindMedia(kind) == CASE kind = "avc" -> "h264" [] kind = "hevc" -> "h265" [] kind = "vp9" -> "vp9"
                     [] kind = "aac" -> "aac" [] kind = "ttxt" -> "ttxt"
HandlerOf(ttype) == CASE ttype = "video" -> VIDE [] ttype = "audio" -> SOUN [] ttype = "subtitle" -> SBTL

Million == <<15, 66, 64>>      \* 1 000 000
Thousand == <<3, 232>>         \* 1 000

TrackTotal(ss) == LET RECURSIVE R(_, _)
                      R(i, acc) == IF i > Len(ss) THEN acc ELSE R(i + 1, Add(acc, ss[i].dur))
                  IN R(1, <<>>)

-----------------------------------------------------------------------------
(* (b) the reader's view *)
TrackViewFailures(v, conf, ss, t) ==
  LET S == TrackTotal(ss)  tts == conf.timescale
      vid == conf.kind \in {"avc", "hevc", "vp9"} IN
  (IF v.id = t THEN {} ELSE {<<t, "id">>})
  \cup (IF v.ttype = conf.ttype THEN {} ELSE {<<t, "track_type">>})
  \cup (IF v.mtype = KindMedia(conf.kind) THEN {} ELSE {<<t, "media_type">>})
  \cup (IF v.fourcc = KindFourCC(conf.kind) THEN {} ELSE {<<t, "box_type">>})
  \cup (IF ~vid \/ (v.w = conf.w /\ v.h = conf.h) THEN {} ELSE {<<t, "width/height">>})
  \cup (IF v.lang = conf.lang THEN {} ELSE {<<t, "language">>})
  \cup (IF v.timescale = conf.timescale THEN {} ELSE {<<t, "timescale">>})
  \cup (IF v.dur_ok /\ Leq(AbsDiff(Mul(v.dur_us, tts), Mul(S, Million)), tts) THEN {} ELSE {<<t, "duration">>})
  \cup (IF conf.kind # "avc" \/ (v.sps = conf.sps /\ v.pps = conf.pps
                                  /\ v.avc = <<conf.sps[2], conf.sps[3], conf.sps[4]>>)
        THEN {} ELSE {<<t, "avc parameter sets / profile bytes">>})
  \cup (IF conf.kind # "aac" \/ (v.aot = conf.profile /\ v.freq = conf.freq /\ v.chan = conf.chan
                                  /\ v.bitrate = conf.bitrate)
        THEN {} ELSE {<<t, "aac object type / frequency index / channels / bitrate">>})

ViewFailures(view, cfg, trks) ==
  LET n == Len(trks)
      mts == cfg.timescale
      S(t) == TrackTotal(trks[t].samples)
      tts(t) == trks[t].conf.timescale
      d == view.dur_ms
      \* tolerance: one movie tick plus one millisecond, scaled by mts * tts
      tol(t) == Add(Mul(Thousand, tts(t)), Mul(mts, tts(t)))
      lhs(t) == Mul(Mul(d, mts), tts(t))                 \* d ms  * mts * tts
      rhs(t) == Mul(Mul(S(t), Thousand), mts)            \* S / tts s in ms * mts * tts
  IN
  (IF view.major = cfg.major THEN {} ELSE {"major_brand"})
  \cup (IF view.minor = cfg.minor THEN {} ELSE {"minor_version"})
  \cup (IF view.brands = cfg.brands THEN {} ELSE {"compatible_brands"})
  \cup (IF view.timescale = cfg.timescale THEN {} ELSE {"movie timescale"})
  \cup (IF Len(view.tracks) = n THEN UNION {TrackViewFailures(view.tracks[t], trks[t].conf, trks[t].samples, t) : t \in 1..n}
        ELSE {"number of tracks"})
  \cup (IF ~view.dur_ok THEN {"movie duration accessor"}
        ELSE IF n = 0 THEN (IF d = <<>> THEN {} ELSE {"movie duration"})
        ELSE IF /\ \A t \in 1..n : Leq(rhs(t), Add(lhs(t), tol(t)))
                /\ \E t \in 1..n : Leq(lhs(t), Add(rhs(t), tol(t)))
             THEN {} ELSE {"movie duration"})

-----------------------------------------------------------------------------
(* (a) the bytes: stsd sample entry, hdlr, mdhd, tkhd, ftyp, mvhd decoded by the spec *)
TrackConfigFailures(f, tr, conf, t) ==
  LET e == DecStsdEntry(f.mb, tr.stsdk) IN
  (IF tr.hdlr.handler_type = HandlerOf(conf.ttype) THEN {} ELSE {<<t, "hdlr.handler_type">>})
  \cup (IF tr.mdhd.timescale = conf.timescale THEN {} ELSE {<<t, "mdhd.timescale">>})
  \cup (IF tr.mdhd.language = conf.lang THEN {} ELSE {<<t, "mdhd.language">>})
  \cup (IF ~e.ok THEN {<<t, "stsd: " \o e.why>>}
        ELSE (IF e.t = KindFourCC(conf.kind) THEN {} ELSE {<<t, "sample entry type">>})
             \cup (IF e.t # KindFourCC(conf.kind) THEN {}
                   ELSE IF conf.kind \in {"avc", "hevc", "vp9"}
                        THEN (IF e.v.width = conf.w /\ e.v.height = conf.h THEN {} ELSE {<<t, "sample entry width/height">>})
                             \cup (IF conf.w >= 32768 \/ tr.tkhd.width = FromInt(conf.w * 65536) THEN {} ELSE {<<t, "tkhd.width">>})
                        ELSE {})
             \cup (IF conf.kind = "avc" /\ e.t = AVC1
                   THEN (IF /\ Len(e.v.avcc.sequence_parameter_sets) = 1 /\ Len(e.v.avcc.picture_parameter_sets) = 1
                            /\ e.v.avcc.sequence_parameter_sets[1].bytes = conf.sps
                            /\ e.v.avcc.picture_parameter_sets[1].bytes = conf.pps
                            /\ e.v.avcc.avc_profile_indication = conf.sps[2]
                            /\ e.v.avcc.profile_compatibility = conf.sps[3]
                            /\ e.v.avcc.avc_level_indication = conf.sps[4]
                         THEN {} ELSE {<<t, "avcC parameter sets / profile bytes">>})
                   ELSE {})
             \cup (IF conf.kind = "aac" /\ e.t = MP4A
                   THEN (IF /\ e.x.has_esds
                            /\ e.x.asc.object_type = conf.profile
                            /\ e.x.asc.freq_index = conf.freq
                            /\ e.x.asc.chan_conf = conf.chan
                            /\ e.x.avg_bitrate = conf.bitrate
                         THEN {} ELSE {<<t, "esds AudioSpecificConfig / bitrate">>})
                   ELSE {}))

ConfigFailures(f, cfg, trks) ==
  (IF f.ftyp.major_brand = cfg.major THEN {} ELSE {"ftyp.major_brand"})
  \cup (IF f.ftyp.minor_version = cfg.minor THEN {} ELSE {"ftyp.minor_version"})
  \cup (IF f.ftyp.compatible_brands = cfg.brands THEN {} ELSE {"ftyp.compatible_brands"})
  \cup (IF f.mvhd.timescale = cfg.timescale THEN {} ELSE {"mvhd.timescale"})
  \cup (IF Len(f.traks) # Len(trks) THEN {}
        ELSE UNION {TrackConfigFailures(f, f.traks[t], trks[t].conf, t) : t \in 1..Len(trks)})
=============================================================================
