---- MODULE MC_Stream ----
EXTENDS Stream
R(n) == [kind |-> "read", n |-> n]
W(n) == [kind |-> "write", n |-> n]
S == [kind |-> "seek", n |-> 0]
MCPlans == { <<R(1)>>, <<R(3)>>, <<S, R(2), R(3)>>, <<R(2), S, R(0), R(1)>>, <<W(3)>>, <<S, W(2), S, W(1), W(2)>>, <<>>, <<S>> }
====
