-------------------------------- MODULE Frag --------------------------------
(***************************************************************************)
(* Movie-fragment semantics (ISO/IEC 14496-12 8.8), as property C09 states *)
(* them, over the boxes decoded by Wire from a file image:                 *)
(*   samples of a track are numbered across all fragments in file order;   *)
(*   offset   = (explicit base_data_offset, else start of the enclosing    *)
(*              moof) + the run's data_offset + sizes of earlier samples   *)
(*              of the run;                                                *)
(*   start    = tfdt.base_media_decode_time + durations of earlier samples *)
(*              of the run;                                                *)
(*   duration = per-sample, else tfhd default, else the track's trex       *)
(*              default;   cts = per-sample (signed), else 0.              *)
(* The result has the same shape as SampleTable!Sem so that the reader     *)
(* trace specification treats both kinds of file alike.                    *)
(***************************************************************************)
EXTENDS Naturals, Integers, Sequences, FiniteSets, Wire, Iso

\* one moof box (top-level entry tb = [t, off, h, size]) -> [ok, off, trafs]
DecodeMoof(img, tb) ==
  IF ~IsSmall(tb.size) \/ SegOf(img, tb.off, ToInt(tb.size)) = 0 THEN [ok |-> FALSE, why |-> "moof outside logged segments"]
  ELSE
  LET si == SegOf(img, tb.off, ToInt(tb.size))
      b  == img.segs[si].bytes
      k  == [ok |-> TRUE, t |-> MOOF, o |-> Rel(img, si, tb.off), h |-> tb.h, s |-> ToInt(tb.size)]
  IN IF ~TreeOK(b, k) THEN [ok |-> FALSE, why |-> "moof not tiled by its children"]
     ELSE
     LET ks == Kids(b, PayloadLo(k), PayloadHi(k)).kids
         tf == SelectKids(ks, TRAF)
         dec(x) ==
           LET xs == Kids(b, PayloadLo(x), PayloadHi(x)).kids IN
           IF ~HasKid(xs, TFHD) \/ ~CanTfhd(b, Kid(xs, TFHD)) THEN [ok |-> FALSE]
           ELSE IF HasKid(xs, TFDT) /\ ~CanTfdt(b, Kid(xs, TFDT)) THEN [ok |-> FALSE]
           ELSE IF HasKid(xs, TRUN) /\ ~CanTrun(b, Kid(xs, TRUN)) THEN [ok |-> FALSE]
           ELSE [ ok |-> TRUE, tfhd |-> DecTfhd(b, Kid(xs, TFHD)),
                  tfdt |-> IF HasKid(xs, TFDT) THEN Some(DecTfdt(b, Kid(xs, TFDT))) ELSE None,
                  ntrun |-> Len(SelectKids(xs, TRUN)),
                  trun |-> IF HasKid(xs, TRUN) THEN Some(DecTrun(b, Kid(xs, TRUN))) ELSE None ]
         trafs == [i \in 1..Len(tf) |-> dec(tf[i])]
     IN IF \E i \in 1..Len(trafs) : ~trafs[i].ok THEN [ok |-> FALSE, why |-> "traf malformed"]
        ELSE [ok |-> TRUE, why |-> "", off |-> tb.off, large |-> tb.h = 16, trafs |-> trafs]

\* the trex defaults of the movie: [ok, trexs : Seq(trex value)]
DecodeMvex(mb, moovKids) ==
  IF ~HasKid(moovKids, MVEX) THEN <<>>
  ELSE LET mx == Kid(moovKids, MVEX)
           xs == Kids(mb, PayloadLo(mx), PayloadHi(mx)).kids
           tx == SelectKids(xs, TREX)
       IN [i \in 1..Len(tx) |-> IF CanTrex(mb, tx[i]) THEN DecTrex(mb, tx[i]) ELSE [track_id |-> <<>>]]

\* movie-level default duration of track id (a Big), <<>> (0) if there is no trex for it
TrexDefault(trexs, id) ==
  IF \E i \in 1..Len(trexs) : trexs[i].track_id = id
  THEN trexs[CHOOSE i \in 1..Len(trexs) : trexs[i].track_id = id].default_sample_duration
  ELSE <<>>

\* the C09 precondition for one traf: one run with per-sample sizes, and a tfdt
TrafInDomain(tf) == /\ tf.trun.some /\ tf.ntrun = 1 /\ tf.tfdt.some
                    /\ FlagSet(tf.trun.v.flags, TRUN_SIZE)
                    /\ IsSmall(tf.trun.v.sample_count)
                    /\ \A i \in 1..Len(tf.trun.v.sample_sizes) : IsSmall(tf.trun.v.sample_sizes[i])

\* signed view of a raw 32-bit composition offset
AsS32(x) == IF IsSmall(x) THEN ToInt(x) ELSE -(ToInt(Sub(<<1, 0, 0, 0, 0>>, x)))

\* samples of one run: Seq([off, size, start, dur, cts])
RunSamples(moofOff, tf, trexDur) ==
  LET tr   == tf.trun.v
      n    == ToInt(tr.sample_count)
      base == IF tf.tfhd.base_data_offset.some THEN tf.tfhd.base_data_offset.v ELSE moofOff
      d0   == IF tr.data_offset.some THEN tr.data_offset.v ELSE 0
      first == IF d0 >= 0 THEN Add(base, FromInt(d0)) ELSE Sub(base, FromInt(-d0))
      perDur == FlagSet(tr.flags, TRUN_DUR)
      defDur == IF tf.tfhd.default_sample_duration.some THEN tf.tfhd.default_sample_duration.v ELSE trexDur
      durOf(i) == IF perDur THEN tr.sample_durations[i] ELSE defDur
      RECURSIVE R(_, _, _, _)
      R(i, off, st, acc) ==
        IF i > n THEN acc
        ELSE R(i + 1, Add(off, tr.sample_sizes[i]), Add(st, durOf(i)),
               Append(acc, [ off |-> off, size |-> ToInt(tr.sample_sizes[i]), start |-> st, dur |-> durOf(i),
                             cts |-> IF FlagSet(tr.flags, TRUN_CTS) THEN AsS32(tr.sample_cts[i]) ELSE 0,
                             sync |-> TRUE, syncKnown |-> FALSE ]))
  IN R(1, first, tf.tfdt.v.base_media_decode_time, <<>>)

\* all samples of track id over the fragments, in file order; [inDomain, samples]
RECURSIVE FragSamplesR(_, _, _, _, _, _)
FragSamplesR(moofs, id, trexDur, i, j, acc) ==
  IF i > Len(moofs) THEN acc
  ELSE IF j > Len(moofs[i].trafs) THEN FragSamplesR(moofs, id, trexDur, i + 1, 1, acc)
  ELSE LET tf == moofs[i].trafs[j] IN
       IF tf.tfhd.track_id # id THEN FragSamplesR(moofs, id, trexDur, i, j + 1, acc)
       \* a track fragment without any run holds no samples ("the sum of the run counts")
       ELSE IF tf.ntrun = 0 THEN FragSamplesR(moofs, id, trexDur, i, j + 1, [acc EXCEPT !.nfrag = @ + 1])
       ELSE IF ~TrafInDomain(tf) THEN FragSamplesR(moofs, id, trexDur, i, j + 1, [acc EXCEPT !.inDomain = FALSE])
       ELSE FragSamplesR(moofs, id, trexDur, i, j + 1,
                         [acc EXCEPT !.samples = @ \o RunSamples(moofs[i].off, tf, trexDur),
                                     !.nfrag = @ + 1,
                                     !.largeMoof = @ \/ (moofs[i].large /\ ~tf.tfhd.base_data_offset.some),
                                     !.usesTrex = @ \/ (~FlagSet(tf.trun.v.flags, TRUN_DUR) /\ ~tf.tfhd.default_sample_duration.some
                                                        /\ ToInt(tf.trun.v.sample_count) > 0)])
FragSamples(moofs, id, trexDur) ==
  FragSamplesR(moofs, id, trexDur, 1, 1,
               [inDomain |-> TRUE, samples |-> <<>>, nfrag |-> 0, largeMoof |-> FALSE, usesTrex |-> FALSE])
=============================================================================
