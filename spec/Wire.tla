------------------------------- MODULE Wire -------------------------------
(***************************************************************************)
(* ISO base-media wire formats, written from ISO/IEC 14496-12 (box         *)
(* structure, movie/track/media headers, sample tables, movie fragments),  *)
(* -14 (esds / MPEG-4 descriptors, AudioSpecificConfig), -15 (avcC, hvcC), *)
(* the VP codec ISO-BMFF binding (vpcC), 3GPP TS 26.245 (tx3g), DASH       *)
(* (emsg) and the iTunes metadata conventions (ilst / data).               *)
(*                                                                         *)
(* For every box:  Enc<Box>(v)  the byte image of value v (reference       *)
(* encoder), Dec<Box>(b, o, s) the value of the box that starts at 0-based *)
(* offset o of image b and has total size s (reference decoder), and       *)
(* Can<Box>(b, o, s) its well-formedness precondition.                     *)
(*                                                                         *)
(* Value conventions: record field names are the library's public field    *)
(* names; unsigned fields of 4 or 8 bytes are Bigs (module Big), all other *)
(* numbers TLC integers; four-character codes and strings are byte         *)
(* sequences; optional values are [some |-> FALSE] / [some |-> TRUE, v |-> x].*)
(***************************************************************************)
EXTENDS Naturals, Integers, Sequences, Bytes

None == [some |-> FALSE]
Some(x) == [some |-> TRUE, v |-> x]

\* ---- 0-based field access -------------------------------------------------
u8(b, o)  == b[o + 1]
u16(b, o) == U16(b, o + 1)
u24(b, o) == U24(b, o + 1)
n32(b, o) == NatAt(b, o + 1, 4)
n64(b, o) == NatAt(b, o + 1, 8)
s32(b, o) == S32(b, o + 1)
s16(b, o) == S16(b, o + 1)
s8(b, o)  == S8(b, o + 1)
cc(b, o)  == Slice(b, o + 1, 4)
raw(b, o, n) == Slice(b, o + 1, n)

\* ---- four-character codes ---------------------------------------------------
FTYP == <<102,116,121,112>>   MOOV == <<109,111,111,118>>   MDAT == <<109,100,97,116>>
FREE == <<102,114,101,101>>   WIDE == <<119,105,100,101>>   MVHD == <<109,118,104,100>>
TRAK == <<116,114,97,107>>    TKHD == <<116,107,104,100>>   MDIA == <<109,100,105,97>>
MDHD == <<109,100,104,100>>   HDLR == <<104,100,108,114>>   MINF == <<109,105,110,102>>
VMHD == <<118,109,104,100>>   SMHD == <<115,109,104,100>>   DINF == <<100,105,110,102>>
DREF == <<100,114,101,102>>   URL_ == <<117,114,108,32>>    STBL == <<115,116,98,108>>
STSD == <<115,116,115,100>>   STTS == <<115,116,116,115>>   CTTS == <<99,116,116,115>>
STSS == <<115,116,115,115>>   STSC == <<115,116,115,99>>    STSZ == <<115,116,115,122>>
STCO == <<115,116,99,111>>    CO64 == <<99,111,54,52>>      AVC1 == <<97,118,99,49>>
AVCC == <<97,118,99,67>>      HEV1 == <<104,101,118,49>>    HVCC == <<104,118,99,67>>
VP09 == <<118,112,48,57>>     VPCC == <<118,112,99,67>>     MP4A == <<109,112,52,97>>
ESDS == <<101,115,100,115>>   TX3G == <<116,120,51,103>>    EDTS == <<101,100,116,115>>
ELST == <<101,108,115,116>>   MVEX == <<109,118,101,120>>   MEHD == <<109,101,104,100>>
TREX == <<116,114,101,120>>   MOOF == <<109,111,111,102>>   MFHD == <<109,102,104,100>>
TRAF == <<116,114,97,102>>    TFHD == <<116,102,104,100>>   TFDT == <<116,102,100,116>>
TRUN == <<116,114,117,110>>   UDTA == <<117,100,116,97>>    META == <<109,101,116,97>>
ILST == <<105,108,115,116>>   DATA == <<100,97,116,97>>     EMSG == <<101,109,115,103>>
CNAM == <<169,110,97,109>>    CDAY == <<169,100,97,121>>    COVR == <<99,111,118,114>>
DESC == <<100,101,115,99>>    WAVE == <<119,97,118,101>>
VIDE == <<118,105,100,101>>   SOUN == <<115,111,117,110>>   SBTL == <<115,98,116,108>>
MDIR == <<109,100,105,114>>

\* ---- headers ------------------------------------------------------------------
\* compact 32-bit form
Box(t, body) == BE(8 + Len(body), 4) \o t \o body
\* 64-bit form: size field 1, then the 64-bit total size (which counts all 16 header bytes)
BoxLarge(t, body) == BE(1, 4) \o t \o BE(16 + Len(body), 8) \o body
Full(t, version, flags, body) == Box(t, <<version>> \o BE(flags, 3) \o body)
FullLarge(t, version, flags, body) == BoxLarge(t, <<version>> \o BE(flags, 3) \o body)

(* A parsed header at 0-based offset o inside [o, end):                    *)
(*   [ok, t, o, h, s]  h = header length (8/16), s = total size            *)
(* size field 0 = "to the end of the enclosing scope".                     *)
Hdr(b, o, end) ==
  IF o + 8 > end THEN [ok |-> FALSE, t |-> <<>>, o |-> o, h |-> 0, s |-> 0]
  ELSE LET t == cc(b, o + 4) IN
       IF ~SmallAt(b, o + 1, 4) THEN [ok |-> FALSE, t |-> t, o |-> o, h |-> 8, s |-> 0]
       ELSE LET sz32 == IntAt(b, o + 1, 4) IN
            IF sz32 = 1 THEN
               IF o + 16 > end \/ ~SmallAt(b, o + 9, 8)
               THEN [ok |-> FALSE, t |-> t, o |-> o, h |-> 16, s |-> 0]
               ELSE LET sz64 == IntAt(b, o + 9, 8) IN
                    [ok |-> sz64 >= 16 /\ o + sz64 <= end, t |-> t, o |-> o, h |-> 16, s |-> sz64]
            ELSE IF sz32 = 0 THEN [ok |-> TRUE, t |-> t, o |-> o, h |-> 8, s |-> end - o]
            ELSE [ok |-> sz32 >= 8 /\ o + sz32 <= end, t |-> t, o |-> o, h |-> 8, s |-> sz32]

\* the child boxes that tile [lo, hi):  [ok, kids]
RECURSIVE KidsR(_, _, _, _)
KidsR(b, o, hi, acc) ==
  IF o = hi THEN [ok |-> TRUE, kids |-> acc]
  ELSE LET h == Hdr(b, o, hi) IN
       IF ~h.ok THEN [ok |-> FALSE, kids |-> acc]
       ELSE KidsR(b, o + h.s, hi, Append(acc, h))
Kids(b, lo, hi) == KidsR(b, lo, hi, <<>>)

SelectKids(ks, t) == SelectSeq(ks, LAMBDA k : k.t = t)
HasKid(ks, t) == \E i \in 1..Len(ks) : ks[i].t = t
Kid(ks, t) == LET i == CHOOSE i \in 1..Len(ks) : ks[i].t = t /\ \A j \in 1..(i - 1) : ks[j].t # t
              IN ks[i]
PayloadLo(k) == k.o + k.h
PayloadHi(k) == k.o + k.s

\* full-box prefix
Ver(b, k) == u8(b, PayloadLo(k))
Flg(b, k) == u24(b, PayloadLo(k) + 1)
BodyLo(k) == PayloadLo(k) + 4          \* first byte after version/flags

-----------------------------------------------------------------------------
(* ftyp *)
EncFtyp(v) == Box(FTYP, v.major_brand \o ToBE(v.minor_version, 4) \o Flat(v.compatible_brands))
CanFtyp(b, k) == k.s - k.h >= 8 /\ (k.s - k.h) % 4 = 0
DecFtyp(b, k) ==
  LET p == PayloadLo(k)  n == (k.s - k.h - 8) \div 4 IN
  [ major_brand |-> cc(b, p), minor_version |-> n32(b, p + 4),
    compatible_brands |-> [i \in 1..n |-> cc(b, p + 8 + 4 * (i - 1))] ]

-----------------------------------------------------------------------------
(* matrix: nine signed 32-bit values a b u c d v x y w *)
EncMatrix(m) == BEs(m.a, 4) \o BEs(m.b, 4) \o BEs(m.u, 4) \o BEs(m.c, 4) \o BEs(m.d, 4)
                \o BEs(m.v, 4) \o BEs(m.x, 4) \o BEs(m.y, 4) \o BEs(m.w, 4)
DecMatrix(b, o) == [ a |-> s32(b, o), b |-> s32(b, o + 4), u |-> s32(b, o + 8),
                     c |-> s32(b, o + 12), d |-> s32(b, o + 16), v |-> s32(b, o + 20),
                     x |-> s32(b, o + 24), y |-> s32(b, o + 28), w |-> s32(b, o + 32) ]
UnityMatrix == [a |-> 65536, b |-> 0, u |-> 0, c |-> 0, d |-> 65536, v |-> 0,
                x |-> 0, y |-> 0, w |-> 1073741824]

\* width of the version-dependent time fields
TW(version) == IF version = 1 THEN 8 ELSE 4

-----------------------------------------------------------------------------
(* mvhd (8.2.2): times, timescale, duration, rate 16.16, volume 8.8, 10 reserved,
   matrix, 24 pre_defined, next_track_ID *)
EncMvhd(v) ==
  Full(MVHD, v.version, v.flags,
       ToBE(v.creation_time, TW(v.version)) \o ToBE(v.modification_time, TW(v.version))
       \o ToBE(v.timescale, 4) \o ToBE(v.duration, TW(v.version))
       \o ToBE(v.rate, 4) \o BE(v.volume, 2) \o Zeros(10) \o EncMatrix(v.matrix)
       \o Zeros(24) \o ToBE(v.next_track_id, 4))
CanMvhd(b, k) == k.s - k.h >= 4 /\ Ver(b, k) \in {0, 1}
                 /\ k.s - k.h >= 4 + 3 * TW(Ver(b, k)) + 4 + 80
DecMvhd(b, k) ==
  LET ver == Ver(b, k)  w == TW(ver)  p == BodyLo(k)  q == p + 3 * w + 4 IN
  [ version |-> ver, flags |-> Flg(b, k),
    creation_time |-> NatAt(b, p + 1, w), modification_time |-> NatAt(b, p + w + 1, w),
    timescale |-> n32(b, p + 2 * w), duration |-> NatAt(b, p + 2 * w + 4 + 1, w),
    rate |-> n32(b, q), volume |-> u16(b, q + 4), matrix |-> DecMatrix(b, q + 16),
    next_track_id |-> n32(b, q + 76) ]

(* tkhd (8.3.2) *)
EncTkhd(v) ==
  Full(TKHD, v.version, v.flags,
       ToBE(v.creation_time, TW(v.version)) \o ToBE(v.modification_time, TW(v.version))
       \o ToBE(v.track_id, 4) \o Zeros(4) \o ToBE(v.duration, TW(v.version))
       \o Zeros(8) \o BE(v.layer, 2) \o BE(v.alternate_group, 2) \o BE(v.volume, 2) \o Zeros(2)
       \o EncMatrix(v.matrix) \o ToBE(v.width, 4) \o ToBE(v.height, 4))
CanTkhd(b, k) == k.s - k.h >= 4 /\ Ver(b, k) \in {0, 1}
                 /\ k.s - k.h >= 4 + 3 * TW(Ver(b, k)) + 8 + 60
DecTkhd(b, k) ==
  LET ver == Ver(b, k)  w == TW(ver)  p == BodyLo(k)  q == p + 3 * w + 8 IN
  [ version |-> ver, flags |-> Flg(b, k),
    creation_time |-> NatAt(b, p + 1, w), modification_time |-> NatAt(b, p + w + 1, w),
    track_id |-> n32(b, p + 2 * w), duration |-> NatAt(b, p + 2 * w + 8 + 1, w),
    layer |-> u16(b, q + 8), alternate_group |-> u16(b, q + 10), volume |-> u16(b, q + 12),
    matrix |-> DecMatrix(b, q + 16), width |-> n32(b, q + 52), height |-> n32(b, q + 56) ]

(* mdhd (8.4.2): language = 1 pad bit + 3 x 5 bits (ISO-639-2/T letters minus 0x60) *)
PackLang(l) == ((l[1] - 96) % 32) * 1024 + ((l[2] - 96) % 32) * 32 + ((l[3] - 96) % 32)
UnpackLang(c) == << ((c \div 1024) % 32) + 96, ((c \div 32) % 32) + 96, (c % 32) + 96 >>
EncMdhd(v) ==
  Full(MDHD, v.version, v.flags,
       ToBE(v.creation_time, TW(v.version)) \o ToBE(v.modification_time, TW(v.version))
       \o ToBE(v.timescale, 4) \o ToBE(v.duration, TW(v.version))
       \o BE(PackLang(v.language), 2) \o Zeros(2))
CanMdhd(b, k) == k.s - k.h >= 4 /\ Ver(b, k) \in {0, 1}
                 /\ k.s - k.h >= 4 + 3 * TW(Ver(b, k)) + 4 + 4
DecMdhd(b, k) ==
  LET ver == Ver(b, k)  w == TW(ver)  p == BodyLo(k) IN
  [ version |-> ver, flags |-> Flg(b, k),
    creation_time |-> NatAt(b, p + 1, w), modification_time |-> NatAt(b, p + w + 1, w),
    timescale |-> n32(b, p + 2 * w), duration |-> NatAt(b, p + 2 * w + 4 + 1, w),
    language |-> UnpackLang(u16(b, p + 3 * w + 4)) ]

(* hdlr (8.4.3): pre_defined, handler_type, 3 reserved words, null-terminated UTF-8 name *)
RECURSIVE CStrLenR(_, _, _, _)
CStrLenR(b, o, hi, n) == IF o + n >= hi \/ u8(b, o + n) = 0 THEN n ELSE CStrLenR(b, o, hi, n + 1)
CStr(b, o, hi) == raw(b, o, CStrLenR(b, o, hi, 0))      \* bytes up to NUL or hi
EncHdlr(v) == Full(HDLR, v.version, v.flags,
                   Zeros(4) \o v.handler_type \o Zeros(12) \o v.name \o <<0>>)
CanHdlr(b, k) == k.s - k.h >= 4 + 20
DecHdlr(b, k) ==
  LET p == BodyLo(k) IN
  [ version |-> Ver(b, k), flags |-> Flg(b, k), handler_type |-> cc(b, p + 4),
    name |-> CStr(b, p + 20, PayloadHi(k)) ]

(* vmhd (12.1.2), smhd (12.2.2) *)
EncVmhd(v) == Full(VMHD, v.version, v.flags,
                   BE(v.graphics_mode, 2) \o BE(v.op_color.red, 2) \o BE(v.op_color.green, 2)
                   \o BE(v.op_color.blue, 2))
CanVmhd(b, k) == k.s - k.h >= 12
DecVmhd(b, k) == LET p == BodyLo(k) IN
  [ version |-> Ver(b, k), flags |-> Flg(b, k), graphics_mode |-> u16(b, p),
    op_color |-> [red |-> u16(b, p + 2), green |-> u16(b, p + 4), blue |-> u16(b, p + 6)] ]
EncSmhd(v) == Full(SMHD, v.version, v.flags, BEs(v.balance, 2) \o Zeros(2))
CanSmhd(b, k) == k.s - k.h >= 8
DecSmhd(b, k) == [ version |-> Ver(b, k), flags |-> Flg(b, k), balance |-> s16(b, BodyLo(k)) ]

(* dinf / dref / url  (8.7.1, 8.7.2) *)
EncUrl(v)  == Full(URL_, v.version, v.flags,
                   IF v.location = <<>> THEN <<>> ELSE v.location \o <<0>>)
DecUrl(b, k) == [ version |-> Ver(b, k), flags |-> Flg(b, k),
                  location |-> CStr(b, BodyLo(k), PayloadHi(k)) ]
EncDref(v) == Full(DREF, v.version, v.flags,
                   BE(IF v.url.some THEN 1 ELSE 0, 4) \o (IF v.url.some THEN EncUrl(v.url.v) ELSE <<>>))
EncDinf(v) == Box(DINF, EncDref(v.dref))
DefaultDinf == [dref |-> [version |-> 0, flags |-> 0,
                          url |-> Some([version |-> 0, flags |-> 1, location |-> <<>>])]]

-----------------------------------------------------------------------------
(* sample tables (8.6.1.2 stts, 8.6.1.3 ctts, 8.6.2 stss, 8.7.4 stsc, 8.7.3 stsz, 8.7.5 stco/co64) *)

Table(t, v, w, enc(_)) ==   \* entry_count + entries, each encoded by enc
  Full(t, v.version, v.flags, BE(Len(v.entries), 4) \o Flat([i \in 1..Len(v.entries) |-> enc(v.entries[i])]))

\* entry_count is small and the entries fit the box
CanTable(b, k, w) == /\ k.s - k.h >= 8
                     /\ SmallAt(b, BodyLo(k) + 1, 4)
                     /\ IntAt(b, BodyLo(k) + 1, 4) <= (k.s - k.h - 8) \div w
TableN(b, k) == IntAt(b, BodyLo(k) + 1, 4)
TableAt(k, w, i) == BodyLo(k) + 4 + w * (i - 1)       \* offset of entry i

EncStts(v) == Table(STTS, v, 8, LAMBDA e : ToBE(e.sample_count, 4) \o ToBE(e.sample_delta, 4))
CanStts(b, k) == CanTable(b, k, 8)
DecStts(b, k) == [ version |-> Ver(b, k), flags |-> Flg(b, k),
                   entries |-> [i \in 1..TableN(b, k) |->
                      [sample_count |-> n32(b, TableAt(k, 8, i)), sample_delta |-> n32(b, TableAt(k, 8, i) + 4)]] ]

EncCtts(v) == Table(CTTS, v, 8, LAMBDA e : ToBE(e.sample_count, 4) \o BEs(e.sample_offset, 4))
CanCtts(b, k) == CanTable(b, k, 8)
DecCtts(b, k) == [ version |-> Ver(b, k), flags |-> Flg(b, k),
                   entries |-> [i \in 1..TableN(b, k) |->
                      [sample_count |-> n32(b, TableAt(k, 8, i)), sample_offset |-> s32(b, TableAt(k, 8, i) + 4)]] ]

EncStss(v) == Table(STSS, v, 4, LAMBDA e : ToBE(e, 4))
CanStss(b, k) == CanTable(b, k, 4)
DecStss(b, k) == [ version |-> Ver(b, k), flags |-> Flg(b, k),
                   entries |-> [i \in 1..TableN(b, k) |-> n32(b, TableAt(k, 4, i))] ]

EncStsc(v) == Table(STSC, v, 12, LAMBDA e : ToBE(e.first_chunk, 4) \o ToBE(e.samples_per_chunk, 4)
                                              \o ToBE(e.sample_description_index, 4))
CanStsc(b, k) == CanTable(b, k, 12)
DecStsc(b, k) == [ version |-> Ver(b, k), flags |-> Flg(b, k),
                   entries |-> [i \in 1..TableN(b, k) |->
                      [first_chunk |-> n32(b, TableAt(k, 12, i)),
                       samples_per_chunk |-> n32(b, TableAt(k, 12, i) + 4),
                       sample_description_index |-> n32(b, TableAt(k, 12, i) + 8)]] ]

EncStco(v) == Table(STCO, v, 4, LAMBDA e : ToBE(e, 4))
CanStco(b, k) == CanTable(b, k, 4)
DecStco(b, k) == [ version |-> Ver(b, k), flags |-> Flg(b, k),
                   entries |-> [i \in 1..TableN(b, k) |-> n32(b, TableAt(k, 4, i))] ]

EncCo64(v) == Table(CO64, v, 8, LAMBDA e : ToBE(e, 8))
CanCo64(b, k) == CanTable(b, k, 8)
DecCo64(b, k) == [ version |-> Ver(b, k), flags |-> Flg(b, k),
                   entries |-> [i \in 1..TableN(b, k) |-> n64(b, TableAt(k, 8, i))] ]

\* stsz: sample_size, sample_count, then (iff sample_size = 0) one size per sample
EncStsz(v) == Full(STSZ, v.version, v.flags,
                   ToBE(v.sample_size, 4) \o ToBE(v.sample_count, 4)
                   \o (IF v.sample_size = <<>>
                       THEN Flat([i \in 1..Len(v.sample_sizes) |-> ToBE(v.sample_sizes[i], 4)])
                       ELSE <<>>))
CanStsz(b, k) == /\ k.s - k.h >= 12
                 /\ SmallAt(b, BodyLo(k) + 5, 4)
                 /\ (n32(b, BodyLo(k)) = <<>> => IntAt(b, BodyLo(k) + 5, 4) <= (k.s - k.h - 12) \div 4)
DecStsz(b, k) ==
  LET p == BodyLo(k)  ss == n32(b, p)  n == IntAt(b, p + 5, 4) IN
  [ version |-> Ver(b, k), flags |-> Flg(b, k), sample_size |-> ss, sample_count |-> n32(b, p + 4),
    sample_sizes |-> IF ss = <<>> THEN [i \in 1..n |-> n32(b, p + 8 + 4 * (i - 1))] ELSE <<>> ]
-----------------------------------------------------------------------------
(* movie fragments (8.8): mvex / mehd / trex, moof / mfhd / traf / tfhd / tfdt / trun *)
FlagSet(flags, bit) == (flags \div bit) % 2 = 1
Opt(o, enc(_)) == IF o.some THEN enc(o.v) ELSE <<>>

EncMehd(v) == Full(MEHD, v.version, v.flags, ToBE(v.fragment_duration, TW(v.version)))
CanMehd(b, k) == k.s - k.h >= 4 /\ Ver(b, k) \in {0, 1} /\ k.s - k.h >= 4 + TW(Ver(b, k))
DecMehd(b, k) == [ version |-> Ver(b, k), flags |-> Flg(b, k),
                   fragment_duration |-> NatAt(b, BodyLo(k) + 1, TW(Ver(b, k))) ]

EncTrex(v) == Full(TREX, v.version, v.flags,
                   ToBE(v.track_id, 4) \o ToBE(v.default_sample_description_index, 4)
                   \o ToBE(v.default_sample_duration, 4) \o ToBE(v.default_sample_size, 4)
                   \o ToBE(v.default_sample_flags, 4))
CanTrex(b, k) == k.s - k.h >= 24
DecTrex(b, k) == LET p == BodyLo(k) IN
  [ version |-> Ver(b, k), flags |-> Flg(b, k), track_id |-> n32(b, p),
    default_sample_description_index |-> n32(b, p + 4), default_sample_duration |-> n32(b, p + 8),
    default_sample_size |-> n32(b, p + 12), default_sample_flags |-> n32(b, p + 16) ]

EncMfhd(v) == Full(MFHD, v.version, v.flags, ToBE(v.sequence_number, 4))
CanMfhd(b, k) == k.s - k.h >= 8
DecMfhd(b, k) == [version |-> Ver(b, k), flags |-> Flg(b, k), sequence_number |-> n32(b, BodyLo(k))]

\* tfhd: which optional fields are present is decided by the flags
TFHD_BASE == 1   TFHD_SDI == 2   TFHD_DUR == 8   TFHD_SIZE == 16   TFHD_FLAGS == 32
TFHD_EMPTY == 65536   TFHD_BASE_IS_MOOF == 131072
EncTfhd(v) ==
  Full(TFHD, v.version, v.flags,
       ToBE(v.track_id, 4)
       \o (IF FlagSet(v.flags, TFHD_BASE) THEN ToBE(v.base_data_offset.v, 8) ELSE <<>>)
       \o (IF FlagSet(v.flags, TFHD_SDI) THEN ToBE(v.sample_description_index.v, 4) ELSE <<>>)
       \o (IF FlagSet(v.flags, TFHD_DUR) THEN ToBE(v.default_sample_duration.v, 4) ELSE <<>>)
       \o (IF FlagSet(v.flags, TFHD_SIZE) THEN ToBE(v.default_sample_size.v, 4) ELSE <<>>)
       \o (IF FlagSet(v.flags, TFHD_FLAGS) THEN ToBE(v.default_sample_flags.v, 4) ELSE <<>>))
TfhdLen(flags) == 8 + (IF FlagSet(flags, TFHD_BASE) THEN 8 ELSE 0) + (IF FlagSet(flags, TFHD_SDI) THEN 4 ELSE 0)
                  + (IF FlagSet(flags, TFHD_DUR) THEN 4 ELSE 0) + (IF FlagSet(flags, TFHD_SIZE) THEN 4 ELSE 0)
                  + (IF FlagSet(flags, TFHD_FLAGS) THEN 4 ELSE 0)
CanTfhd(b, k) == k.s - k.h >= 4 /\ k.s - k.h >= TfhdLen(Flg(b, k))
DecTfhd(b, k) ==
  LET f == Flg(b, k)  p0 == BodyLo(k) + 4
      p1 == p0 + (IF FlagSet(f, TFHD_BASE) THEN 8 ELSE 0)
      p2 == p1 + (IF FlagSet(f, TFHD_SDI) THEN 4 ELSE 0)
      p3 == p2 + (IF FlagSet(f, TFHD_DUR) THEN 4 ELSE 0)
      p4 == p3 + (IF FlagSet(f, TFHD_SIZE) THEN 4 ELSE 0)
  IN [ version |-> Ver(b, k), flags |-> f, track_id |-> n32(b, BodyLo(k)),
       base_data_offset |-> IF FlagSet(f, TFHD_BASE) THEN Some(n64(b, p0)) ELSE None,
       sample_description_index |-> IF FlagSet(f, TFHD_SDI) THEN Some(n32(b, p1)) ELSE None,
       default_sample_duration |-> IF FlagSet(f, TFHD_DUR) THEN Some(n32(b, p2)) ELSE None,
       default_sample_size |-> IF FlagSet(f, TFHD_SIZE) THEN Some(n32(b, p3)) ELSE None,
       default_sample_flags |-> IF FlagSet(f, TFHD_FLAGS) THEN Some(n32(b, p4)) ELSE None ]

EncTfdt(v) == Full(TFDT, v.version, v.flags, ToBE(v.base_media_decode_time, TW(v.version)))
CanTfdt(b, k) == k.s - k.h >= 4 /\ Ver(b, k) \in {0, 1} /\ k.s - k.h >= 4 + TW(Ver(b, k))
DecTfdt(b, k) == [ version |-> Ver(b, k), flags |-> Flg(b, k),
                   base_media_decode_time |-> NatAt(b, BodyLo(k) + 1, TW(Ver(b, k))) ]

TRUN_OFFSET == 1   TRUN_FIRST == 4   TRUN_DUR == 256   TRUN_SIZE == 512   TRUN_FLAGS == 1024   TRUN_CTS == 2048
TrunPer(flags) == (IF FlagSet(flags, TRUN_DUR) THEN 4 ELSE 0) + (IF FlagSet(flags, TRUN_SIZE) THEN 4 ELSE 0)
                  + (IF FlagSet(flags, TRUN_FLAGS) THEN 4 ELSE 0) + (IF FlagSet(flags, TRUN_CTS) THEN 4 ELSE 0)
TrunHead(flags) == 8 + (IF FlagSet(flags, TRUN_OFFSET) THEN 4 ELSE 0) + (IF FlagSet(flags, TRUN_FIRST) THEN 4 ELSE 0)
\* sample_cts entries are the raw 32-bit patterns (signed in version 1)
EncTrun(v) ==
  LET n == ToInt(v.sample_count) IN
  Full(TRUN, v.version, v.flags,
       ToBE(v.sample_count, 4)
       \o (IF FlagSet(v.flags, TRUN_OFFSET) THEN BEs(v.data_offset.v, 4) ELSE <<>>)
       \o (IF FlagSet(v.flags, TRUN_FIRST) THEN ToBE(v.first_sample_flags.v, 4) ELSE <<>>)
       \o Flat([i \in 1..n |->
             (IF FlagSet(v.flags, TRUN_DUR) THEN ToBE(v.sample_durations[i], 4) ELSE <<>>)
             \o (IF FlagSet(v.flags, TRUN_SIZE) THEN ToBE(v.sample_sizes[i], 4) ELSE <<>>)
             \o (IF FlagSet(v.flags, TRUN_FLAGS) THEN ToBE(v.sample_flags[i], 4) ELSE <<>>)
             \o (IF FlagSet(v.flags, TRUN_CTS) THEN ToBE(v.sample_cts[i], 4) ELSE <<>>)]))
CanTrun(b, k) == /\ k.s - k.h >= 8
                 /\ k.s - k.h >= 4 + TrunHead(Flg(b, k)) - 4
                 /\ SmallAt(b, BodyLo(k) + 1, 4)
                 /\ IntAt(b, BodyLo(k) + 1, 4) * TrunPer(Flg(b, k)) <= k.s - k.h - TrunHead(Flg(b, k))
DecTrun(b, k) ==
  LET f == Flg(b, k)  n == IntAt(b, BodyLo(k) + 1, 4)
      p0 == BodyLo(k) + 4
      p1 == p0 + (IF FlagSet(f, TRUN_OFFSET) THEN 4 ELSE 0)
      q  == p1 + (IF FlagSet(f, TRUN_FIRST) THEN 4 ELSE 0)
      per == TrunPer(f)
      oD == 0
      oS == oD + (IF FlagSet(f, TRUN_DUR) THEN 4 ELSE 0)
      oF == oS + (IF FlagSet(f, TRUN_SIZE) THEN 4 ELSE 0)
      oC == oF + (IF FlagSet(f, TRUN_FLAGS) THEN 4 ELSE 0)
      col(on, o) == IF on THEN [i \in 1..n |-> n32(b, q + per * (i - 1) + o)] ELSE <<>>
  IN [ version |-> Ver(b, k), flags |-> f, sample_count |-> n32(b, BodyLo(k)),
       data_offset |-> IF FlagSet(f, TRUN_OFFSET) THEN Some(s32(b, p0)) ELSE None,
       first_sample_flags |-> IF FlagSet(f, TRUN_FIRST) THEN Some(n32(b, p1)) ELSE None,
       sample_durations |-> col(FlagSet(f, TRUN_DUR), oD), sample_sizes |-> col(FlagSet(f, TRUN_SIZE), oS),
       sample_flags |-> col(FlagSet(f, TRUN_FLAGS), oF), sample_cts |-> col(FlagSet(f, TRUN_CTS), oC) ]

-----------------------------------------------------------------------------
(* edit list (8.6.6) *)
EncElst(v) == Table(ELST, v, IF v.version = 1 THEN 20 ELSE 12,
                    LAMBDA e : ToBE(e.segment_duration, TW(v.version)) \o ToBE(e.media_time, TW(v.version))
                               \o BE(e.media_rate, 2) \o BE(e.media_rate_fraction, 2))
CanElst(b, k) == k.s - k.h >= 4 /\ Ver(b, k) \in {0, 1} /\ CanTable(b, k, IF Ver(b, k) = 1 THEN 20 ELSE 12)
DecElst(b, k) ==
  LET w == TW(Ver(b, k))  es == 2 * w + 4 IN
  [ version |-> Ver(b, k), flags |-> Flg(b, k),
    entries |-> [i \in 1..TableN(b, k) |->
       [ segment_duration |-> NatAt(b, TableAt(k, es, i) + 1, w), media_time |-> NatAt(b, TableAt(k, es, i) + w + 1, w),
         media_rate |-> u16(b, TableAt(k, es, i) + 2 * w), media_rate_fraction |-> u16(b, TableAt(k, es, i) + 2 * w + 2) ]] ]

-----------------------------------------------------------------------------
(* emsg (ISO/IEC 23009-1 5.10.3.3): version 0 strings first, version 1 numbers first *)
EncEmsg(v) ==
  Full(EMSG, v.version, v.flags,
       IF v.version = 0
       THEN v.scheme_id_uri \o <<0>> \o v.value \o <<0>> \o ToBE(v.timescale, 4)
            \o ToBE(v.presentation_time_delta.v, 4) \o ToBE(v.event_duration, 4) \o ToBE(v.id, 4) \o v.message_data
       ELSE ToBE(v.timescale, 4) \o ToBE(v.presentation_time.v, 8) \o ToBE(v.event_duration, 4) \o ToBE(v.id, 4)
            \o v.scheme_id_uri \o <<0>> \o v.value \o <<0>> \o v.message_data)
DecEmsg(b, k) ==
  LET p == BodyLo(k)  hi == PayloadHi(k) IN
  IF Ver(b, k) = 0 THEN
     LET s1 == CStr(b, p, hi)  p2 == p + Len(s1) + 1  s2 == CStr(b, p2, hi)  q == p2 + Len(s2) + 1 IN
     [ version |-> 0, flags |-> Flg(b, k), timescale |-> n32(b, q), presentation_time |-> None,
       presentation_time_delta |-> Some(n32(b, q + 4)), event_duration |-> n32(b, q + 8), id |-> n32(b, q + 12),
       scheme_id_uri |-> s1, value |-> s2, message_data |-> raw(b, q + 16, hi - (q + 16)) ]
  ELSE
     LET q == p + 20  s1 == CStr(b, q, hi)  p2 == q + Len(s1) + 1  s2 == CStr(b, p2, hi)  r == p2 + Len(s2) + 1 IN
     [ version |-> 1, flags |-> Flg(b, k), timescale |-> n32(b, p), presentation_time |-> Some(n64(b, p + 4)),
       presentation_time_delta |-> None, event_duration |-> n32(b, p + 12), id |-> n32(b, p + 16),
       scheme_id_uri |-> s1, value |-> s2, message_data |-> raw(b, r, hi - r) ]

-----------------------------------------------------------------------------
(* iTunes-style metadata: udta / meta (FullBox, or QuickTime style without version/flags) /
   hdlr / ilst / item / data.  data: type indicator (u32), locale (u32), payload *)
EncData(v) == Box(DATA, ToBE(v.data_type, 4) \o Zeros(4) \o v.data)
CanData(b, k) == k.s - k.h >= 8
DecData(b, k) == [ data_type |-> n32(b, PayloadLo(k)), data |-> raw(b, PayloadLo(k) + 8, k.s - k.h - 8) ]
=============================================================================
