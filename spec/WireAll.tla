------------------------------ MODULE WireAll ------------------------------
(***************************************************************************)
(* Value-level reference encoders / decoders of the container boxes, and   *)
(* the dispatch over every supported box type (C04 / C05).  Leaf boxes are *)
(* in Wire / WireCodec.  A container value is the record of its children   *)
(* (the library's public field names); children are written in the order   *)
(* ISO recommends (and the library uses), and found by type when decoding, *)
(* so the decoders accept any order and unknown siblings.                  *)
(***************************************************************************)
EXTENDS Naturals, Integers, Sequences, FiniteSets, TLC, Wire, WireCodec

OptEnc(o, enc(_)) == IF o.some THEN enc(o.v) ELSE <<>>

\* whole-box view of a byte sequence that holds exactly one box
Whole(b) == Hdr(b, 0, Len(b))

\* ---- dinf / dref -------------------------------------------------------------------
EncDrefV(v) == Full(DREF, v.version, v.flags, BE(IF v.url.some THEN 1 ELSE 0, 4) \o OptEnc(v.url, EncUrl))
DecDrefV(b, k) ==
  LET ks == Kids(b, BodyLo(k) + 4, PayloadHi(k)).kids IN
  [ version |-> Ver(b, k), flags |-> Flg(b, k),
    url |-> IF HasKid(ks, URL_) THEN Some(DecUrl(b, Kid(ks, URL_))) ELSE None ]
EncDinfV(v) == Box(DINF, EncDrefV(v.dref))
DecDinfV(b, k) == [ dref |-> DecDrefV(b, Kid(Kids(b, PayloadLo(k), PayloadHi(k)).kids, DREF)) ]

\* ---- edts ---------------------------------------------------------------------------
EncEdtsV(v) == Box(EDTS, OptEnc(v.elst, EncElst))
DecEdtsV(b, k) == LET ks == Kids(b, PayloadLo(k), PayloadHi(k)).kids IN
                  [ elst |-> IF HasKid(ks, ELST) THEN Some(DecElst(b, Kid(ks, ELST))) ELSE None ]

\* ---- stsd ---------------------------------------------------------------------------
EncStsdV(v) ==
  Full(STSD, v.version, v.flags,
       \* entry_count = the number of sample entries that follow (the value holds at most one)
       BE(IF v.avc1.some \/ v.hev1.some \/ v.vp09.some \/ v.mp4a.some \/ v.tx3g.some THEN 1 ELSE 0, 4)
       \o OptEnc(v.avc1, EncAvc1) \o OptEnc(v.hev1, EncHev1) \o OptEnc(v.vp09, EncVp09)
       \o OptEnc(v.mp4a, EncMp4a) \o OptEnc(v.tx3g, EncTx3g))
DecStsdV(b, k) ==
  LET e == DecStsdEntry(b, k)
      is(t) == e.ok /\ e.t = t IN
  [ version |-> Ver(b, k), flags |-> Flg(b, k),
    avc1 |-> IF is(AVC1) THEN Some(e.v) ELSE None, hev1 |-> IF is(HEV1) THEN Some(e.v) ELSE None,
    vp09 |-> IF is(VP09) THEN Some(e.v) ELSE None, mp4a |-> IF is(MP4A) THEN Some(e.v) ELSE None,
    tx3g |-> IF is(TX3G) THEN Some(e.v) ELSE None ]

\* ---- stbl / minf / mdia / trak ------------------------------------------------------------
EncStblV(v) == Box(STBL, EncStsdV(v.stsd) \o EncStts(v.stts) \o OptEnc(v.ctts, EncCtts) \o OptEnc(v.stss, EncStss)
                         \o EncStsc(v.stsc) \o EncStsz(v.stsz) \o OptEnc(v.stco, EncStco) \o OptEnc(v.co64, EncCo64))
DecOpt(b, ks, t, dec(_, _)) == IF HasKid(ks, t) THEN Some(dec(b, Kid(ks, t))) ELSE None
DecStblV(b, k) ==
  LET ks == Kids(b, PayloadLo(k), PayloadHi(k)).kids IN
  [ stsd |-> DecStsdV(b, Kid(ks, STSD)), stts |-> DecStts(b, Kid(ks, STTS)),
    ctts |-> DecOpt(b, ks, CTTS, DecCtts), stss |-> DecOpt(b, ks, STSS, DecStss),
    stsc |-> DecStsc(b, Kid(ks, STSC)), stsz |-> DecStsz(b, Kid(ks, STSZ)),
    stco |-> DecOpt(b, ks, STCO, DecStco), co64 |-> DecOpt(b, ks, CO64, DecCo64) ]

EncMinfV(v) == Box(MINF, OptEnc(v.vmhd, EncVmhd) \o OptEnc(v.smhd, EncSmhd) \o EncDinfV(v.dinf) \o EncStblV(v.stbl))
DecMinfV(b, k) ==
  LET ks == Kids(b, PayloadLo(k), PayloadHi(k)).kids IN
  [ vmhd |-> DecOpt(b, ks, VMHD, DecVmhd), smhd |-> DecOpt(b, ks, SMHD, DecSmhd),
    dinf |-> DecDinfV(b, Kid(ks, DINF)), stbl |-> DecStblV(b, Kid(ks, STBL)) ]

EncMdiaV(v) == Box(MDIA, EncMdhd(v.mdhd) \o EncHdlr(v.hdlr) \o EncMinfV(v.minf))
DecMdiaV(b, k) ==
  LET ks == Kids(b, PayloadLo(k), PayloadHi(k)).kids IN
  [ mdhd |-> DecMdhd(b, Kid(ks, MDHD)), hdlr |-> DecHdlr(b, Kid(ks, HDLR)), minf |-> DecMinfV(b, Kid(ks, MINF)) ]

\* ---- metadata ------------------------------------------------------------------------
KeyCC(key) == CASE key = "Title" -> CNAM [] key = "Year" -> CDAY [] key = "Poster" -> COVR [] key = "Summary" -> DESC
Keys == <<"Title", "Year", "Poster", "Summary">>
\* ilst value: [items |-> record over a subset of Keys of [data |-> data value]]
EncIlstV(v) ==
  Box(ILST, Flat([i \in 1..4 |-> IF Keys[i] \in DOMAIN v.items
                                 THEN Box(KeyCC(Keys[i]), EncData(v.items[Keys[i]].data)) ELSE <<>>]))
DecIlstV(b, k) ==
  LET ks == Kids(b, PayloadLo(k), PayloadHi(k)).kids
      present == {key \in {"Title", "Year", "Poster", "Summary"} : HasKid(ks, KeyCC(key))}
      item(key) == LET it == Kid(ks, KeyCC(key))
                       dk == Kid(Kids(b, PayloadLo(it), PayloadHi(it)).kids, DATA) IN [data |-> DecData(b, dk)]
  IN [ items |-> [key \in present |-> item(key)] ]

\* meta value: [kind |-> "Mdir", ilst |-> opt]  or  [kind |-> "Unknown", hdlr |-> hdlr value, data |-> Seq(<<type, bytes>>)]
MdirHdlr == [version |-> 0, flags |-> 0, handler_type |-> MDIR, name |-> <<>>]
EncMetaV(v) ==
  Full(META, 0, 0,
       IF v.kind = "Mdir" THEN EncHdlr(MdirHdlr) \o OptEnc(v.ilst, EncIlstV)
       ELSE EncHdlr(v.hdlr) \o Flat([i \in 1..Len(v.data) |-> Box(v.data[i][1], v.data[i][2])]))
DecMetaV(b, k) ==
  LET p  == PayloadLo(k)
      qt == k.s - k.h >= 8 /\ n32(b, p) # <<>> /\ cc(b, p + 4) = HDLR
      ks == Kids(b, IF qt THEN p ELSE p + 4, PayloadHi(k)).kids
      hd == DecHdlr(b, Kid(ks, HDLR))
      others == SelectSeq(ks, LAMBDA x : x.t # HDLR)
  IN IF hd.handler_type = MDIR
     THEN [ kind |-> "Mdir", ilst |-> IF HasKid(ks, ILST) THEN Some(DecIlstV(b, Kid(ks, ILST))) ELSE None ]
     ELSE [ kind |-> "Unknown", hdlr |-> hd,
            data |-> [i \in 1..Len(others) |-> <<others[i].t, raw(b, PayloadLo(others[i]), others[i].s - others[i].h)>>] ]

EncUdtaV(v) == Box(UDTA, OptEnc(v.meta, EncMetaV))
DecUdtaV(b, k) == LET ks == Kids(b, PayloadLo(k), PayloadHi(k)).kids IN [ meta |-> DecOpt(b, ks, META, DecMetaV) ]

\* ---- trak / mvex / moov ----------------------------------------------------------------
EncTrakV(v) == Box(TRAK, EncTkhd(v.tkhd) \o OptEnc(v.edts, EncEdtsV) \o OptEnc(v.meta, EncMetaV) \o EncMdiaV(v.mdia))
DecTrakV(b, k) ==
  LET ks == Kids(b, PayloadLo(k), PayloadHi(k)).kids IN
  [ tkhd |-> DecTkhd(b, Kid(ks, TKHD)), edts |-> DecOpt(b, ks, EDTS, DecEdtsV),
    meta |-> DecOpt(b, ks, META, DecMetaV), mdia |-> DecMdiaV(b, Kid(ks, MDIA)) ]

EncMvexV(v) == Box(MVEX, OptEnc(v.mehd, EncMehd) \o EncTrex(v.trex))
DecMvexV(b, k) == LET ks == Kids(b, PayloadLo(k), PayloadHi(k)).kids IN
                  [ mehd |-> DecOpt(b, ks, MEHD, DecMehd), trex |-> DecTrex(b, Kid(ks, TREX)) ]

EncMoovV(v) == Box(MOOV, EncMvhd(v.mvhd) \o Flat([i \in 1..Len(v.traks) |-> EncTrakV(v.traks[i])])
                         \o OptEnc(v.mvex, EncMvexV) \o OptEnc(v.meta, EncMetaV) \o OptEnc(v.udta, EncUdtaV))
DecMoovV(b, k) ==
  LET ks == Kids(b, PayloadLo(k), PayloadHi(k)).kids  tk == SelectKids(ks, TRAK) IN
  [ mvhd |-> DecMvhd(b, Kid(ks, MVHD)), meta |-> DecOpt(b, ks, META, DecMetaV), mvex |-> DecOpt(b, ks, MVEX, DecMvexV),
    traks |-> [i \in 1..Len(tk) |-> DecTrakV(b, tk[i])], udta |-> DecOpt(b, ks, UDTA, DecUdtaV) ]

\* ---- traf / moof -------------------------------------------------------------------------
EncTrafV(v) == Box(TRAF, EncTfhd(v.tfhd) \o OptEnc(v.tfdt, EncTfdt) \o OptEnc(v.trun, EncTrun))
DecTrafV(b, k) == LET ks == Kids(b, PayloadLo(k), PayloadHi(k)).kids IN
                  [ tfhd |-> DecTfhd(b, Kid(ks, TFHD)), tfdt |-> DecOpt(b, ks, TFDT, DecTfdt), trun |-> DecOpt(b, ks, TRUN, DecTrun) ]
EncMoofV(v) == Box(MOOF, EncMfhd(v.mfhd) \o Flat([i \in 1..Len(v.trafs) |-> EncTrafV(v.trafs[i])]))
DecMoofV(b, k) == LET ks == Kids(b, PayloadLo(k), PayloadHi(k)).kids  tf == SelectKids(ks, TRAF) IN
                  [ mfhd |-> DecMfhd(b, Kid(ks, MFHD)), trafs |-> [i \in 1..Len(tf) |-> DecTrafV(b, tf[i])] ]

-----------------------------------------------------------------------------
(* dispatch: type name -> encoder / decoder / four-character code / properties *)
Unwrap(d) == d.v      \* sample-entry decoders return [ok, v]

EncAny(t, v) ==
  CASE t = "ftyp" -> EncFtyp(v) [] t = "mvhd" -> EncMvhd(v) [] t = "tkhd" -> EncTkhd(v) [] t = "mdhd" -> EncMdhd(v)
    [] t = "hdlr" -> EncHdlr(v) [] t = "vmhd" -> EncVmhd(v) [] t = "smhd" -> EncSmhd(v) [] t = "url " -> EncUrl(v)
    [] t = "dref" -> EncDrefV(v) [] t = "dinf" -> EncDinfV(v) [] t = "stts" -> EncStts(v) [] t = "ctts" -> EncCtts(v)
    [] t = "stss" -> EncStss(v) [] t = "stsc" -> EncStsc(v) [] t = "stsz" -> EncStsz(v) [] t = "stco" -> EncStco(v)
    [] t = "co64" -> EncCo64(v) [] t = "mehd" -> EncMehd(v) [] t = "trex" -> EncTrex(v) [] t = "mfhd" -> EncMfhd(v)
    [] t = "tfhd" -> EncTfhd(v) [] t = "tfdt" -> EncTfdt(v) [] t = "trun" -> EncTrun(v) [] t = "elst" -> EncElst(v)
    [] t = "edts" -> EncEdtsV(v) [] t = "emsg" -> EncEmsg(v) [] t = "data" -> EncData(v) [] t = "avcC" -> EncAvcC(v)
    [] t = "avc1" -> EncAvc1(v) [] t = "hvcC" -> EncHvcC(v) [] t = "hev1" -> EncHev1(v) [] t = "vpcC" -> EncVpcC(v)
    [] t = "vp09" -> EncVp09(v) [] t = "esds" -> EncEsds(v) [] t = "mp4a" -> EncMp4a(v) [] t = "tx3g" -> EncTx3g(v)
    [] t = "stsd" -> EncStsdV(v) [] t = "stbl" -> EncStblV(v) [] t = "minf" -> EncMinfV(v) [] t = "mdia" -> EncMdiaV(v)
    [] t = "trak" -> EncTrakV(v) [] t = "mvex" -> EncMvexV(v) [] t = "moov" -> EncMoovV(v) [] t = "ilst" -> EncIlstV(v)
    [] t = "meta" -> EncMetaV(v) [] t = "udta" -> EncUdtaV(v) [] t = "traf" -> EncTrafV(v) [] t = "moof" -> EncMoofV(v)

DecAny(t, b, k) ==
  CASE t = "ftyp" -> DecFtyp(b, k) [] t = "mvhd" -> DecMvhd(b, k) [] t = "tkhd" -> DecTkhd(b, k) [] t = "mdhd" -> DecMdhd(b, k)
    [] t = "hdlr" -> DecHdlr(b, k) [] t = "vmhd" -> DecVmhd(b, k) [] t = "smhd" -> DecSmhd(b, k) [] t = "url " -> DecUrl(b, k)
    [] t = "dref" -> DecDrefV(b, k) [] t = "dinf" -> DecDinfV(b, k) [] t = "stts" -> DecStts(b, k) [] t = "ctts" -> DecCtts(b, k)
    [] t = "stss" -> DecStss(b, k) [] t = "stsc" -> DecStsc(b, k) [] t = "stsz" -> DecStsz(b, k) [] t = "stco" -> DecStco(b, k)
    [] t = "co64" -> DecCo64(b, k) [] t = "mehd" -> DecMehd(b, k) [] t = "trex" -> DecTrex(b, k) [] t = "mfhd" -> DecMfhd(b, k)
    [] t = "tfhd" -> DecTfhd(b, k) [] t = "tfdt" -> DecTfdt(b, k) [] t = "trun" -> DecTrun(b, k) [] t = "elst" -> DecElst(b, k)
    [] t = "edts" -> DecEdtsV(b, k) [] t = "emsg" -> DecEmsg(b, k) [] t = "data" -> DecData(b, k) [] t = "avcC" -> Unwrap(DecAvcC(b, k))
    [] t = "avc1" -> Unwrap(DecAvc1(b, k)) [] t = "hvcC" -> Unwrap(DecHvcC(b, k)) [] t = "hev1" -> Unwrap(DecHev1(b, k))
    [] t = "vpcC" -> Unwrap(DecVpcC(b, k)) [] t = "vp09" -> Unwrap(DecVp09(b, k)) [] t = "esds" -> Unwrap(DecEsds(b, k))
    [] t = "mp4a" -> Unwrap(DecMp4a(b, k)) [] t = "tx3g" -> Unwrap(DecTx3g(b, k))
    [] t = "stsd" -> DecStsdV(b, k) [] t = "stbl" -> DecStblV(b, k) [] t = "minf" -> DecMinfV(b, k) [] t = "mdia" -> DecMdiaV(b, k)
    [] t = "trak" -> DecTrakV(b, k) [] t = "mvex" -> DecMvexV(b, k) [] t = "moov" -> DecMoovV(b, k) [] t = "ilst" -> DecIlstV(b, k)
    [] t = "meta" -> DecMetaV(b, k) [] t = "udta" -> DecUdtaV(b, k) [] t = "traf" -> DecTrafV(b, k) [] t = "moof" -> DecMoofV(b, k)

CodeOf(t) ==
  CASE t = "ftyp" -> FTYP [] t = "mvhd" -> MVHD [] t = "tkhd" -> TKHD [] t = "mdhd" -> MDHD [] t = "hdlr" -> HDLR
    [] t = "vmhd" -> VMHD [] t = "smhd" -> SMHD [] t = "url " -> URL_ [] t = "dref" -> DREF [] t = "dinf" -> DINF
    [] t = "stts" -> STTS [] t = "ctts" -> CTTS [] t = "stss" -> STSS [] t = "stsc" -> STSC [] t = "stsz" -> STSZ
    [] t = "stco" -> STCO [] t = "co64" -> CO64 [] t = "mehd" -> MEHD [] t = "trex" -> TREX [] t = "mfhd" -> MFHD
    [] t = "tfhd" -> TFHD [] t = "tfdt" -> TFDT [] t = "trun" -> TRUN [] t = "elst" -> ELST [] t = "edts" -> EDTS
    [] t = "emsg" -> EMSG [] t = "data" -> DATA [] t = "avcC" -> AVCC [] t = "avc1" -> AVC1 [] t = "hvcC" -> HVCC
    [] t = "hev1" -> HEV1 [] t = "vpcC" -> VPCC [] t = "vp09" -> VP09 [] t = "esds" -> ESDS [] t = "mp4a" -> MP4A
    [] t = "tx3g" -> TX3G [] t = "stsd" -> STSD [] t = "stbl" -> STBL [] t = "minf" -> MINF [] t = "mdia" -> MDIA
    [] t = "trak" -> TRAK [] t = "mvex" -> MVEX [] t = "moov" -> MOOV [] t = "ilst" -> ILST [] t = "meta" -> META
    [] t = "udta" -> UDTA [] t = "traf" -> TRAF [] t = "moof" -> MOOF

\* boxes whose child order the encoder may choose freely (an unordered map inside): compared by decoding
OrderFree(t) == t \in {"ilst", "meta", "udta", "moov", "trak"}
\* boxes with a fixed layout / table layout: spare bytes after the last field must be ignored
SpareOK(t) == t \in {"mvhd", "tkhd", "mdhd", "vmhd", "smhd", "stts", "ctts", "stss", "stsc", "stsz", "stco", "co64",
                     "mehd", "trex", "mfhd", "tfhd", "tfdt", "trun", "elst", "vpcC", "tx3g"}

\* the same box with a 64-bit size header / with n spare bytes appended
AsLarge(enc) == BoxLarge(Slice(enc, 5, 4), [i \in 1..(Len(enc) - 8) |-> enc[i + 8]])
\* containers that iterate over their children (child boxes they do not interpret are skipped): the
\* same box with an unknown child that has a 64-bit size header in front of its first child, and a
\* small free box after its last
KidOK(t) == t \in {"moov", "trak", "mdia", "minf", "stbl", "dinf", "udta", "mvex", "moof", "traf", "avc1", "mp4a"}
KidPrefix(t) == CASE t = "avc1" -> 78 [] t = "mp4a" -> 28 [] OTHER -> 0
WithKids(t, enc) ==
  LET p == KidPrefix(t)  n == Len(enc) - 8
      unk == BoxLarge(<<122, 122, 122, 122>>, <<1, 2, 3>>)  fr == Box(<<102, 114, 101, 101>>, <<>>) IN
  BE(Len(enc) + Len(unk) + Len(fr), 4) \o Slice(enc, 5, 4) \o Slice(enc, 9, p) \o unk \o [i \in 1..(n - p) |-> enc[8 + p + i]] \o fr
WithSpare(enc, n) == BE(Len(enc) + n, 4) \o [i \in 1..(Len(enc) - 4) |-> enc[i + 4]] \o Fill(n, 170)
=============================================================================
