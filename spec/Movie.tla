------------------------------- MODULE Movie -------------------------------
(***************************************************************************)
(* Logical movies and their physical rendering.                            *)
(*                                                                         *)
(* A logical movie fixes WHAT a file says: tracks with their sample tables *)
(* (non-fragmented) or track runs (fragmented), sample payloads, optional  *)
(* metadata.  Rendering turns it into a box tree (nodes [t, body, kids,    *)
(* large, spare]) and then into bytes with Wire's reference encoders.      *)
(* Layout operations (C12) transform the tree: insert free / unknown       *)
(* boxes, swap siblings, use 64-bit size headers, append spare bytes to    *)
(* leaves.  Offsets stored in the file (stco/co64, tfhd base offsets)      *)
(* are derived from the final layout, so every rendering is a valid file   *)
(* of the same logical movie.                                              *)
(***************************************************************************)
EXTENDS Naturals, Integers, Sequences, FiniteSets, TLC, Wire, WireCodec, SampleTable

Leaf(boxBytes) == [t |-> Slice(boxBytes, 5, 4), body |-> [i \in 1..(Len(boxBytes) - 8) |-> boxBytes[i + 8]],
                   kids |-> <<>>, leaf |-> TRUE, large |-> FALSE, spare |-> <<>>, eof |-> FALSE]
Cont(t, pre, kids) == [t |-> t, body |-> pre, kids |-> kids, leaf |-> FALSE, large |-> FALSE, spare |-> <<>>, eof |-> FALSE]

RECURSIVE NodeSize(_)
NodeSize(n) == (IF n.large THEN 16 ELSE 8) + Len(n.body) + Len(n.spare)
               + IntSum([i \in 1..Len(n.kids) |-> NodeSize(n.kids[i])])

RECURSIVE EncNode(_)
EncNode(n) == LET payload == n.body \o Flat([i \in 1..Len(n.kids) |-> EncNode(n.kids[i])]) \o n.spare IN
              \* eof: size field 0, "the box extends to the end of the file" (only the last top-level box)
              IF n.eof THEN <<0, 0, 0, 0>> \o n.t \o payload
              ELSE IF n.large THEN BoxLarge(n.t, payload) ELSE Box(n.t, payload)

\* a file is a pseudo node whose kids are the top-level boxes
EncFile(root) == Flat([i \in 1..Len(root.kids) |-> EncNode(root.kids[i])])
\* absolute offset of top-level box i (file starts at 0)
TopOff(root, i) == IntSum([j \in 1..(i - 1) |-> NodeSize(root.kids[j])])
HdrLen(n) == IF n.large THEN 16 ELSE 8

-----------------------------------------------------------------------------
(* layout operations *)
InsAt(s, i, x) == [j \in 1..(Len(s) + 1) |-> IF j < i THEN s[j] ELSE IF j = i THEN x ELSE s[j - 1]]
Swap(s, i, j) == [k \in 1..Len(s) |-> IF k = i THEN s[j] ELSE IF k = j THEN s[i] ELSE s[k]]

ApplyHere(n, op) ==
  CASE op.op = "free"  -> [n EXCEPT !.kids = InsAt(@, op.at, [Leaf(Box(FREE, Zeros(op.len))) EXCEPT !.large = op.big])]
    [] op.op = "unk"   -> [n EXCEPT !.kids = InsAt(@, op.at, [Leaf(Box(op.cc, Fill(op.len, 90))) EXCEPT !.large = op.big])]
    [] op.op = "swap"  -> [n EXCEPT !.kids = Swap(@, op.i, op.j)]
    [] op.op = "large" -> [n EXCEPT !.large = TRUE]
    [] op.op = "eof"   -> [n EXCEPT !.eof = TRUE]
    \* optional boxes that carry no sample-level meaning for the reader: an edit list in a trak
    \* (version op.ver, one empty edit and one media edit), the fragment duration in mvex
    [] op.op = "edts" /\ op.ver = 2 -> [n EXCEPT !.kids = InsAt(@, op.at, Cont(EDTS, <<>>, <<>>))]      \* an empty edit box (8 bytes)
    [] op.op = "edts"  -> [n EXCEPT !.kids = InsAt(@, op.at, Cont(EDTS, <<>>, <<Leaf(EncElst(
                              [ version |-> op.ver, flags |-> 0,
                                entries |-> << [segment_duration |-> <<5>>, media_time |-> IF op.ver = 1 THEN <<255, 255, 255, 255, 255, 255, 255, 255>> ELSE <<255, 255, 255, 255>>,
                                                media_rate |-> 1, media_rate_fraction |-> 0],
                                               [segment_duration |-> <<1, 0>>, media_time |-> <<2>>, media_rate |-> 1, media_rate_fraction |-> 0] >> ]))>>))]
    [] op.op = "mehd"  -> [n EXCEPT !.kids = InsAt(@, op.at, Leaf(EncMehd([version |-> op.ver, flags |-> 0, fragment_duration |-> <<1, 2, 3>>])))]
    \* an event message box (DASH, ISO/IEC 23009-1) of version op.ver in front of kid op.at
    [] op.op = "emsg"  -> [n EXCEPT !.kids = InsAt(@, op.at, Leaf(EncEmsg(
                              [ version |-> op.ver, flags |-> 0, timescale |-> <<3, 232>>,
                                presentation_time |-> IF op.ver = 1 THEN Some(<<1, 0, 0, 0, 7>>) ELSE None,
                                presentation_time_delta |-> IF op.ver = 0 THEN Some(<<9>>) ELSE None,
                                event_duration |-> <<255, 255>>, id |-> <<op.at>>,
                                scheme_id_uri |-> <<117, 114, 110, 58, 120>>, value |-> <<49, 50>>,
                                message_data |-> <<1, 2, 3, 4, 5>> ])))]
    [] op.op = "spare" -> [n EXCEPT !.spare = Fill(op.len, 165)]

RECURSIVE ApplyAt(_, _, _)
ApplyAt(n, p, op) == IF p = <<>> THEN ApplyHere(n, op)
                     ELSE [n EXCEPT !.kids[Head(p)] = ApplyAt(@, Tail(p), op)]

RECURSIVE ApplyOps(_, _, _)
ApplyOps(n, ops, i) == IF i > Len(ops) THEN n ELSE ApplyOps(ApplyAt(n, ops[i].path, ops[i]), ops, i + 1)

RECURSIVE NodeAt(_, _)
NodeAt(n, p) == IF p = <<>> THEN n ELSE NodeAt(n.kids[Head(p)], Tail(p))

\* all paths of the tree (root = <<>>), depth-first
RECURSIVE PathsR(_, _)
PathsR(n, p) == {p} \cup UNION {PathsR(n.kids[i], Append(p, i)) : i \in 1..Len(n.kids)}
Paths(root) == PathsR(root, <<>>)

-----------------------------------------------------------------------------
(* payload of sample k of track t: distinct bytes per sample, so that a wrong
   offset or size is visible *)
SampleBytes(t, k, size) == [i \in 1..size |-> (t * 61 + k * 17 + i * 3) % 256]

-----------------------------------------------------------------------------
(* sample tables in Wire's value form *)
WSttsOf(tb) == [version |-> 0, flags |-> 0, entries |-> [i \in 1..Len(tb.stts) |->
                  [sample_count |-> FromInt(tb.stts[i].count), sample_delta |-> tb.stts[i].delta]]]
WCttsOf(tb) == [version |-> 0, flags |-> 0, entries |-> [i \in 1..Len(tb.ctts.entries) |->
                  [sample_count |-> FromInt(tb.ctts.entries[i].count), sample_offset |-> tb.ctts.entries[i].offset]]]
WStssOf(tb) == [version |-> 0, flags |-> 0, entries |-> [i \in 1..Len(tb.stss.entries) |-> FromInt(tb.stss.entries[i])]]
WStscOf(tb) == [version |-> 0, flags |-> 0, entries |-> [i \in 1..Len(tb.stsc) |->
                  [first_chunk |-> FromInt(tb.stsc[i].first), samples_per_chunk |-> FromInt(tb.stsc[i].spc),
                   sample_description_index |-> FromInt(tb.stsc[i].sdi)]]]
WStszOf(tb) == [version |-> 0, flags |-> 0, sample_size |-> FromInt(tb.stsz.size), sample_count |-> FromInt(tb.stsz.count),
                sample_sizes |-> [i \in 1..Len(tb.stsz.sizes) |-> FromInt(tb.stsz.sizes[i])]]
WCoOf(tb)   == [version |-> 0, flags |-> 0, entries |-> tb.co.entries]

\* sample entries per media kind (values a muxer would write)
Avc1Entry(w, h) == [ data_reference_index |-> 1, width |-> w, height |-> h, horizresolution |-> <<72, 0, 0>>,
                     vertresolution |-> <<72, 0, 0>>, frame_count |-> 1, depth |-> 24,
                     avcc |-> [ configuration_version |-> 1, avc_profile_indication |-> 100, profile_compatibility |-> 0,
                                avc_level_indication |-> 31, length_size_minus_one |-> 3,
                                sequence_parameter_sets |-> <<[bytes |-> <<103, 100, 0, 31, 172>>]>>,
                                picture_parameter_sets |-> <<[bytes |-> <<104, 235, 227>>]>> ] ]
Mp4aEntry == [ data_reference_index |-> 1, channelcount |-> 2, samplesize |-> 16, samplerate |-> <<187, 128, 0, 0>>,
               esds |-> Some([ version |-> 0, flags |-> 0,
                    es_desc |-> [ es_id |-> 1,
                       dec_config |-> [ object_type_indication |-> 64, stream_type |-> 5, up_stream |-> 0,
                                        buffer_size_db |-> 0, max_bitrate |-> <<1, 244, 0>>, avg_bitrate |-> <<1, 244, 0>>,
                                        dec_specific |-> [profile |-> 2, freq_index |-> 3, chan_conf |-> 2] ],
                       sl_config |-> [x \in {} |-> 0] ] ]) ]
Tx3gEntry == [ data_reference_index |-> 1, display_flags |-> <<>>, horizontal_justification |-> 1,
               vertical_justification |-> -1, bg_color_rgba |-> [red |-> 0, green |-> 0, blue |-> 0, alpha |-> 255],
               box_record |-> <<0, 0, 0, 0>>, style_record |-> <<0, 0, 0, 0, 0, 1, 0, 16, 255, 255, 255, 255>> ]
EntryOf(kind) == CASE kind = "avc" -> EncAvc1(Avc1Entry(320, 240)) [] kind = "aac" -> EncMp4a(Mp4aEntry)
                   [] kind = "ttxt" -> EncTx3g(Tx3gEntry)
\* the sample entry as a tree node: the visual / audio entries are containers (78 / 28 bytes of fixed
\* fields, then child boxes: avcC / esds), so that layout operations can reach inside them
EntryFixed(kind) == CASE kind = "avc" -> 78 [] kind = "aac" -> 28 [] OTHER -> 0
EntryNode(kind) ==
  LET b == EntryOf(kind)  f == EntryFixed(kind) IN
  IF f = 0 THEN Leaf(b)
  ELSE [ t |-> Slice(b, 5, 4), body |-> Slice(b, 9, f), kids |-> <<Leaf([i \in 1..(Len(b) - 8 - f) |-> b[i + 8 + f]])>>,
         leaf |-> FALSE, large |-> FALSE, spare |-> <<>>, eof |-> FALSE ]
HandlerOfKind(kind) == CASE kind = "avc" -> VIDE [] kind = "aac" -> SOUN [] kind = "ttxt" -> SBTL
UND == <<117, 110, 100>>

\* trak node of a non-fragmented track; tr = [id, kind, timescale, tbl, tkhdDur]
TrakNode(tr) ==
  LET tb == tr.tbl
      md == MediaDuration(tb)
      tkhd == [ version |-> 0, flags |-> 3, creation_time |-> <<>>, modification_time |-> <<>>,
                track_id |-> FromInt(tr.id), duration |-> tr.tkhdDur, layer |-> 0, alternate_group |-> 0,
                volume |-> IF tr.kind = "aac" THEN 256 ELSE 0, matrix |-> UnityMatrix,
                width |-> IF tr.kind = "avc" THEN <<1, 64, 0, 0>> ELSE <<>>, height |-> IF tr.kind = "avc" THEN <<240, 0, 0>> ELSE <<>> ]
      mdhd == [ version |-> IF Len(md) > 4 THEN 1 ELSE 0, flags |-> 0, creation_time |-> <<>>, modification_time |-> <<>>,
                timescale |-> tr.timescale, duration |-> md, language |-> UND ]
      hdlr == [ version |-> 0, flags |-> 0, handler_type |-> HandlerOfKind(tr.kind), name |-> <<>> ]
      mhd  == CASE tr.kind = "avc" -> <<Leaf(EncVmhd([version |-> 0, flags |-> 1, graphics_mode |-> 0,
                                                      op_color |-> [red |-> 0, green |-> 0, blue |-> 0]]))>>
                [] tr.kind = "aac" -> <<Leaf(EncSmhd([version |-> 0, flags |-> 0, balance |-> 0]))>>
                [] OTHER -> <<>>
      stsd == Cont(STSD, Zeros(4) \o BE(1, 4), <<EntryNode(tr.kind)>>)
      stbl == Cont(STBL, <<>>,
                 <<stsd, Leaf(EncStts(WSttsOf(tb)))>>
                 \o (IF tb.ctts.some THEN <<Leaf(EncCtts(WCttsOf(tb)))>> ELSE <<>>)
                 \o (IF tb.stss.some THEN <<Leaf(EncStss(WStssOf(tb)))>> ELSE <<>>)
                 \o <<Leaf(EncStsc(WStscOf(tb))), Leaf(EncStsz(WStszOf(tb))),
                      Leaf(IF tb.co.kind = "stco" THEN EncStco(WCoOf(tb)) ELSE EncCo64(WCoOf(tb)))>>)
      \* optional field urlloc: the data reference names an external location (flags 0) instead of
      \* "same file" (flags 1, empty location)
      loc  == IF "urlloc" \in DOMAIN tr THEN tr.urlloc ELSE <<>>
      dinf == Cont(DINF, <<>>, <<Cont(DREF, Zeros(4) \o BE(1, 4), <<Leaf(EncUrl([version |-> 0, flags |-> IF loc = <<>> THEN 1 ELSE 0, location |-> loc]))>>)>>)
  IN Cont(TRAK, <<>>, << Leaf(EncTkhd(tkhd)),
                        Cont(MDIA, <<>>, << Leaf(EncMdhd(mdhd)), Leaf(EncHdlr(hdlr)),
                                           Cont(MINF, <<>>, mhd \o <<dinf, stbl>>) >>) >>)

MvhdOf(mts, dur, nextId) ==
  [ version |-> IF Len(dur) > 4 THEN 1 ELSE 0, flags |-> 0, creation_time |-> <<>>, modification_time |-> <<>>,
    timescale |-> mts, duration |-> dur, rate |-> <<1, 0, 0>>, volume |-> 256, matrix |-> UnityMatrix,
    next_track_id |-> FromInt(nextId) ]

FtypNode == Leaf(EncFtyp([major_brand |-> <<105, 115, 111, 109>>, minor_version |-> <<2, 0>>,
                          compatible_brands |-> <<<<105, 115, 111, 109>>, <<109, 112, 52, 49>>>>]))

-----------------------------------------------------------------------------
(* Non-fragmented movie.  m = [mts, tracks : Seq([kind, timescale, tbl]), order, extra] where each
   tbl has co.entries of the right LENGTH (values are assigned here) and order is the sequence of
   <<track, chunk>> pairs in which chunks are laid out in the media data.
   ops = layout operations; paths refer to the tree root whose kids are <<ftyp, moov, mdat>>
   (before the operations are applied). *)

\* payload of every chunk of a track, as a sequence over the chunks (computed in one pass)
AllChunkBytes(t, tb) ==
  LET spc == SpcSeq(tb)  fs == FirstSeq(spc) IN
  [c \in 1..Len(spc) |-> Flat([j \in 1..spc[c] |-> SampleBytes(t, fs[c] + j - 1, SizeOf(tb, fs[c] + j - 1))])]

\* tree for given chunk offsets: offs[t][c] is a Big
PlainTree(m, offs) ==
  LET n == Len(m.tracks)
      withCo(t) == [m.tracks[t].tbl EXCEPT !.co.entries = offs[t]]
      S(t) == MediaDuration(m.tracks[t].tbl)
      tk(t) == IF m.tracks[t].timescale = <<>> THEN <<>> ELSE BigDiv(Mul(S(t), m.mts), m.tracks[t].timescale)
      mdur == LET RECURSIVE M(_, _)
                  M(i, acc) == IF i > n THEN acc ELSE M(i + 1, BMax(acc, tk(i))) IN M(1, <<>>)
      traks == [t \in 1..n |-> TrakNode([id |-> t, kind |-> m.tracks[t].kind, timescale |-> m.tracks[t].timescale,
                                         tbl |-> withCo(t), tkhdDur |-> tk(t),
                                         urlloc |-> IF "urlloc" \in DOMAIN m THEN m.urlloc ELSE <<>>])]
      moov == Cont(MOOV, <<>>, <<Leaf(EncMvhd(MvhdOf(m.mts, mdur, n + 1)))>> \o traks \o m.extra)
      cb   == [t \in 1..n |-> AllChunkBytes(t, m.tracks[t].tbl)]
      mdat == Leaf(Box(MDAT, Flat([i \in 1..Len(m.order) |-> cb[m.order[i][1]][m.order[i][2]]])))
  IN [t |-> <<>>, body |-> <<>>, kids |-> <<FtypNode, moov, mdat>>, leaf |-> FALSE, large |-> FALSE, spare |-> <<>>, eof |-> FALSE]

\* index of the mdat box among the top-level boxes of a laid-out tree
MdatIndex(root) == CHOOSE i \in 1..Len(root.kids) : root.kids[i].t = MDAT

\* chunk offsets that follow from where the laid-out tree puts the media data
RECURSIVE PrefixR(_, _, _, _)
PrefixR(lens, i, cur, acc) == IF i > Len(lens) THEN acc ELSE PrefixR(lens, i + 1, cur + lens[i], Append(acc, cur))
OffsetsFor(m, root) ==
  Let(TopOff(root, MdatIndex(root)) + HdrLen(root.kids[MdatIndex(root)]), LAMBDA p0 :
  Let([t \in 1..Len(m.tracks) |-> ChunkLens(m.tracks[t].tbl)], LAMBDA cls :
  Let(PrefixR([i \in 1..Len(m.order) |-> cls[m.order[i][1]][m.order[i][2]]], 1, p0, <<>>), LAMBDA starts :
      [t \in 1..Len(m.tracks) |-> [c \in 1..Len(m.tracks[t].tbl.co.entries) |->
          FromInt(starts[CHOOSE i \in 1..Len(m.order) : m.order[i] = <<t, c>>])]])))

ZeroOffsets(m) == [t \in 1..Len(m.tracks) |-> [c \in 1..Len(m.tracks[t].tbl.co.entries) |-> <<>>]]

\* ---- header-only rendering for movies whose media data is too large to materialise ----------
\* ftyp + moov + the 16-byte header of a media data box that declares the whole payload; the file
\* is meant to be read through a sparse stream of length `total` (absent bytes read as zero).
\* Offsets and lengths are Bigs throughout.
HdrTree(m, offs) == LET r == PlainTree([m EXCEPT !.order = <<>>], offs) IN [r EXCEPT !.kids = <<r.kids[1], r.kids[2]>>]
RECURSIVE BigPrefixR(_, _, _, _)
BigPrefixR(lens, i, cur, acc) == IF i > Len(lens) THEN acc ELSE BigPrefixR(lens, i + 1, Add(cur, lens[i]), Append(acc, cur))
RenderPlainSparse(m) ==
  Let(HdrTree(m, ZeroOffsets(m)), LAMBDA r0 :
  Let(FromInt(NodeSize(r0.kids[1]) + NodeSize(r0.kids[2]) + 16), LAMBDA p0 :
  Let([t \in 1..Len(m.tracks) |-> ChunkLensBig(m.tracks[t].tbl)], LAMBDA cls :
  Let([i \in 1..Len(m.order) |-> cls[m.order[i][1]][m.order[i][2]]], LAMBDA lens :
  Let(BigPrefixR(lens, 1, p0, <<>>), LAMBDA starts :
  Let([t \in 1..Len(m.tracks) |-> [c \in 1..Len(m.tracks[t].tbl.co.entries) |->
          starts[CHOOSE i \in 1..Len(m.order) : m.order[i] = <<t, c>>]]], LAMBDA offs :
      [ file  |-> EncFile(HdrTree(m, offs)) \o <<0, 0, 0, 1>> \o MDAT \o Pad(Add(Sum(lens), <<16>>), 8),
        total |-> Add(p0, Sum(lens)) ]))))))


\* two passes: sizes do not depend on the offset values, only on their count and width
RenderPlainTree(m0, ops) ==
  Let(m0, LAMBDA m :
  Let(ApplyOps(PlainTree(m, ZeroOffsets(m)), ops, 1), LAMBDA r0 :
  Let(OffsetsFor(m, r0), LAMBDA offs : ApplyOps(PlainTree(m, offs), ops, 1))))
RenderPlain(m, ops) == Let(RenderPlainTree(m, ops), LAMBDA root : EncFile(root))

\* chunk orders
AscOrder(tracks) == LET RECURSIVE R(_, _)
                        R(t, acc) == IF t > Len(tracks) THEN acc
                                     ELSE R(t + 1, acc \o [c \in 1..Len(tracks[t].tbl.co.entries) |-> <<t, c>>])
                    IN R(1, <<>>)
Rev(s) == [i \in 1..Len(s) |-> s[Len(s) + 1 - i]]
\* round robin over the tracks
InterOrder(tracks) ==
  LET maxc == LET RECURSIVE M(_, _)
                  M(t, acc) == IF t > Len(tracks) THEN acc
                               ELSE M(t + 1, IF Len(tracks[t].tbl.co.entries) > acc THEN Len(tracks[t].tbl.co.entries) ELSE acc)
              IN M(1, 0)
      RECURSIVE R(_, _, _)
      R(c, t, acc) == IF c > maxc THEN acc
                      ELSE IF t > Len(tracks) THEN R(c + 1, 1, acc)
                      ELSE R(c, t + 1, IF c <= Len(tracks[t].tbl.co.entries) THEN Append(acc, <<t, c>>) ELSE acc)
  IN R(1, 1, <<>>)
-----------------------------------------------------------------------------
(* Fragmented movie.
   fm = [ mts, tracks : Seq([kind, timescale, trexDur]),
          frags : Seq(Seq(traf)) ]   one inner sequence per movie fragment,
   traf = [ track, base, tfhdDur : opt Big, tfdt : Big, tfdtV, durs : opt Seq(Big), sizes : Seq(Nat),
            cts : opt Seq(raw 32-bit Big), trunV ]
   base in { "moof"  : default-base-is-moof flag, data_offset relative to the moof start
             "none"  : no base flag at all (same expectation: the enclosing moof)
             "start" : explicit base_data_offset = start of the mdat payload, data_offset >= 0
             "end"   : explicit base_data_offset = end of the mdat, data_offset negative
             "exact" : explicit base_data_offset = first byte of the run, no data_offset
             "both"  : like "start" with the default-base-is-moof flag set as well (the explicit
                       offset takes precedence) }
   delivery "one": ftyp moov (moof mdat)*;  "split": init = ftyp moov, segment = (moof mdat)*. *)

EmptyStbl(kind) ==
  Cont(STBL, <<>>,
       << Cont(STSD, Zeros(4) \o BE(1, 4), <<EntryNode(kind)>>),
          Leaf(EncStts([version |-> 0, flags |-> 0, entries |-> <<>>])),
          Leaf(EncStsc([version |-> 0, flags |-> 0, entries |-> <<>>])),
          Leaf(EncStsz([version |-> 0, flags |-> 0, sample_size |-> <<>>, sample_count |-> <<>>, sample_sizes |-> <<>>])),
          Leaf(EncStco([version |-> 0, flags |-> 0, entries |-> <<>>])) >>)

FragTrakNode(id, tr) ==
  LET tkhd == [ version |-> 0, flags |-> 3, creation_time |-> <<>>, modification_time |-> <<>>,
                track_id |-> FromInt(id), duration |-> <<>>, layer |-> 0, alternate_group |-> 0,
                volume |-> 0, matrix |-> UnityMatrix, width |-> <<>>, height |-> <<>> ]
      mdhd == [ version |-> 0, flags |-> 0, creation_time |-> <<>>, modification_time |-> <<>>,
                timescale |-> tr.timescale, duration |-> <<>>, language |-> UND ]
      hdlr == [ version |-> 0, flags |-> 0, handler_type |-> HandlerOfKind(tr.kind), name |-> <<>> ]
      dinf == Cont(DINF, <<>>, <<Cont(DREF, Zeros(4) \o BE(1, 4), <<Leaf(EncUrl([version |-> 0, flags |-> 1, location |-> <<>>]))>>)>>)
  IN Cont(TRAK, <<>>, << Leaf(EncTkhd(tkhd)),
                        Cont(MDIA, <<>>, << Leaf(EncMdhd(mdhd)), Leaf(EncHdlr(hdlr)),
                                           Cont(MINF, <<>>, <<dinf, EmptyStbl(tr.kind)>>) >>) >>)

TrexNode(id, dur) == Leaf(EncTrex([version |-> 0, flags |-> 0, track_id |-> FromInt(id),
                                   default_sample_description_index |-> <<1>>, default_sample_duration |-> dur,
                                   default_sample_size |-> <<>>, default_sample_flags |-> <<>>]))

\* traf node; p = [base : Big, off : Int] placement of the run (ignored fields per mode)
TrafNode(tf, p) ==
  LET explicit == tf.base \in {"start", "end", "exact", "both"}
      hasOff   == tf.base # "exact"
      \* optional field defSize: all samples of the run have the tfhd default size and the run carries
      \* no per-sample sizes (outside the domain of C09, used for the adversarial bases of C06-C08)
      hasDef   == "defSize" \in DOMAIN tf /\ tf.defSize.some
      tfhdFlags == (IF explicit THEN TFHD_BASE ELSE 0) + (IF tf.base \in {"moof", "both"} THEN TFHD_BASE_IS_MOOF ELSE 0)
                   + (IF tf.tfhdDur.some THEN TFHD_DUR ELSE 0) + (IF hasDef THEN TFHD_SIZE ELSE 0)
      tfhd == [ version |-> 0, flags |-> tfhdFlags, track_id |-> FromInt(tf.track),
                base_data_offset |-> IF explicit THEN Some(p.base) ELSE None,
                sample_description_index |-> None, default_sample_duration |-> tf.tfhdDur,
                default_sample_size |-> IF hasDef THEN Some(FromInt(tf.defSize.v)) ELSE None, default_sample_flags |-> None ]
      trunFlags == (IF hasOff THEN TRUN_OFFSET ELSE 0) + (IF tf.durs.some THEN TRUN_DUR ELSE 0) + (IF hasDef THEN 0 ELSE TRUN_SIZE)
                   + (IF tf.cts.some THEN TRUN_CTS ELSE 0)
      n == Len(tf.sizes)
      trun == [ version |-> tf.trunV, flags |-> trunFlags, sample_count |-> FromInt(n),
                data_offset |-> IF hasOff THEN Some(p.off) ELSE None, first_sample_flags |-> None,
                sample_durations |-> IF tf.durs.some THEN tf.durs.v ELSE <<>>,
                sample_sizes |-> IF hasDef THEN <<>> ELSE [i \in 1..n |-> FromInt(tf.sizes[i])],
                sample_flags |-> <<>>, sample_cts |-> IF tf.cts.some THEN tf.cts.v ELSE <<>> ]
      \* optional field noTrun: the track fragment carries no run at all (tfhd + tfdt only)
      noTrun == "noTrun" \in DOMAIN tf /\ tf.noTrun
  IN Cont(TRAF, <<>>, << Leaf(EncTfhd(tfhd)),
                        Leaf(EncTfdt([version |-> tf.tfdtV, flags |-> 0, base_media_decode_time |-> tf.tfdt])) >>
                      \o (IF noTrun THEN <<>> ELSE <<Leaf(EncTrun(trun))>>))

\* global sample number of the first sample of traf j in fragment i, for payload patterns
FragFirstNo(fm, i, j) ==
  LET t == fm.frags[i][j].track IN
  1 + IntSum([a \in 1..(i - 1) |-> IntSum([b \in 1..Len(fm.frags[a]) |->
                    IF fm.frags[a][b].track = t THEN Len(fm.frags[a][b].sizes) ELSE 0])])
    + IntSum([b \in 1..(j - 1) |-> IF fm.frags[i][b].track = t THEN Len(fm.frags[i][b].sizes) ELSE 0])

RunBytes(fm, i, j) ==
  LET tf == fm.frags[i][j]  f0 == FragFirstNo(fm, i, j) IN
  Flat([s \in 1..Len(tf.sizes) |-> SampleBytes(tf.track, f0 + s - 1, tf.sizes[s])])

InitKids(fm) ==
  LET n == Len(fm.tracks) IN
  << FtypNode,
     Cont(MOOV, <<>>, <<Leaf(EncMvhd(MvhdOf(fm.mts, <<>>, n + 1)))>>
                      \o [t \in 1..n |-> FragTrakNode(t, fm.tracks[t])]
                      \o <<Cont(MVEX, <<>>, [t \in 1..n |-> TrexNode(t, fm.tracks[t].trexDur)])>>) >>

\* top-level boxes of the fragments for given placements pl[i][j]; with fm.mdatFirst (optional
\* field) the media data of every fragment precedes its moof (run offsets are then negative)
MdatFirst(fm) == "mdatFirst" \in DOMAIN fm /\ fm.mdatFirst
FragKids(fm, pl) ==
  Flat([i \in 1..Len(fm.frags) |->
     LET moof == Cont(MOOF, <<>>, <<Leaf(EncMfhd([version |-> 0, flags |-> 0, sequence_number |-> FromInt(IF "seq" \in DOMAIN fm THEN fm.seq[i] ELSE i)]))>>
                         \o [j \in 1..Len(fm.frags[i]) |-> TrafNode(fm.frags[i][j], pl[i][j])])
         mdat == Leaf(Box(MDAT, Flat([j \in 1..Len(fm.frags[i]) |-> RunBytes(fm, i, j)])))
     IN IF MdatFirst(fm) THEN <<mdat, moof>> ELSE <<moof, mdat>>])

Root(kids) == [t |-> <<>>, body |-> <<>>, kids |-> kids, leaf |-> FALSE, large |-> FALSE, spare |-> <<>>, eof |-> FALSE]

\* placements from a laid-out stream: the i-th moof box and the first mdat after it (top level may
\* contain other boxes in between, e.g. free boxes inserted by layout operations)
NthOfType(root, t, i) == LET idx == SelectSeq([j \in 1..Len(root.kids) |-> j], LAMBDA j : root.kids[j].t = t) IN idx[i]
Placements(fm, root, lead) ==
  [i \in 1..Len(fm.frags) |->
     LET mi == NthOfType(root, MOOF, i)
         di == IF MdatFirst(fm)
               THEN CHOOSE j \in 1..(mi - 1) : root.kids[j].t = MDAT /\ \A x \in (j + 1)..(mi - 1) : root.kids[x].t # MDAT
               ELSE CHOOSE j \in (mi + 1)..Len(root.kids) : root.kids[j].t = MDAT /\ \A x \in (mi + 1)..(j - 1) : root.kids[x].t # MDAT
         moofStart == TopOff(root, mi)
         payload   == TopOff(root, di) + HdrLen(root.kids[di])
         mdatEnd   == TopOff(root, di) + NodeSize(root.kids[di])
         runStart(j) == payload + IntSum([b \in 1..(j - 1) |-> IntSum(fm.frags[i][b].sizes)])
     IN [j \in 1..Len(fm.frags[i]) |->
           CASE fm.frags[i][j].base \in {"moof", "none"} -> [base |-> <<>>, off |-> runStart(j) - moofStart]
             [] fm.frags[i][j].base \in {"start", "both"} -> [base |-> FromInt(payload), off |-> runStart(j) - payload]
             [] fm.frags[i][j].base = "end"   -> [base |-> FromInt(mdatEnd), off |-> runStart(j) - mdatEnd]
             [] fm.frags[i][j].base = "exact" -> [base |-> FromInt(runStart(j)), off |-> 0]]]

ZeroPlacements(fm) == [i \in 1..Len(fm.frags) |-> [j \in 1..Len(fm.frags[i]) |-> [base |-> <<>>, off |-> 0]]]

\* [file, init]: delivery "one" -> file = whole stream, init = <<>>; "split" -> init and segment
FragTreeZero(fm, delivery) == Root((IF delivery = "one" THEN InitKids(fm) ELSE <<>>) \o FragKids(fm, ZeroPlacements(fm)))
RenderFrag(fm0, delivery, ops) ==
  Let(fm0, LAMBDA fm :
  Let(IF delivery = "one" THEN InitKids(fm) ELSE <<>>, LAMBDA lead :
  Let(ApplyOps(Root(lead \o FragKids(fm, ZeroPlacements(fm))), ops, 1), LAMBDA r0 :
  Let(Placements(fm, r0, Len(lead)), LAMBDA pl :
      [ file |-> EncFile(ApplyOps(Root(lead \o FragKids(fm, pl)), ops, 1)),
        init |-> IF delivery = "one" THEN <<>> ELSE EncFile(Root(InitKids(fm))) ]))))
-----------------------------------------------------------------------------
(* Metadata (C18).  md = [present : "none" | "udta" | "meta" | "full",
                          fullbox, handler (4cc), items : Seq([cc, type (Big), data])]
   present "none": no udta; "udta": empty udta; "meta": meta + hdlr without ilst; "full": with ilst *)
\* md may carry `large`: a subset of {"data", "item", "ilst", "meta", "udta"} -- the boxes of those
\* kinds get 64-bit size headers
LargeOf(md) == IF "large" \in DOMAIN md THEN md.large ELSE {}
WithLarge(n, on) == [n EXCEPT !.large = on]
\* an item record with a `raw` field is an ilst child that is not an item at all (padding, a short
\* unknown atom): its payload verbatim, no data box
\* `pre` / `post`: the payload of a further child of the item before (a `free` box) / after (a `name` box)
\* its data box -- an item's value is its data box, whatever else the item holds
ItemNodeL(it, lg) ==
  IF "raw" \in DOMAIN it THEN Leaf(Box(it.cc, it.raw))
  ELSE WithLarge(Cont(it.cc, <<>>,
                      (IF "pre" \in DOMAIN it THEN <<Leaf(Box(FREE, it.pre))>> ELSE <<>>)
                      \o <<WithLarge(Leaf(EncData([data_type |-> it.type, data |-> it.data])), "data" \in lg)>>
                      \o (IF "post" \in DOMAIN it THEN <<Leaf(Box(<<110, 97, 109, 101>>, it.post))>> ELSE <<>>)),
                 "item" \in lg)
ItemNode(it) == ItemNodeL(it, {})
MetaNode(md) ==
  LET lg == LargeOf(md)
      \* md.hname (optional): the handler's name, any bytes (the tags do not depend on it)
      hd == Leaf(EncHdlr([version |-> 0, flags |-> 0, handler_type |-> md.handler, name |-> IF "hname" \in DOMAIN md THEN md.hname ELSE <<>>]))
      il == WithLarge(Cont(ILST, <<>>, [i \in 1..Len(md.items) |-> ItemNodeL(md.items[i], lg)]), "ilst" \in lg)
  IN WithLarge(Cont(META, IF md.fullbox THEN Zeros(4) ELSE <<>>, IF md.present = "meta" THEN <<hd>> ELSE <<hd, il>>), "meta" \in lg)
UdtaNodes(md) ==
  IF md.present = "none" THEN <<>>
  ELSE IF md.present = "udta" THEN <<Cont(UDTA, <<>>, <<>>)>>
  ELSE <<WithLarge(Cont(UDTA, <<>>, <<MetaNode(md)>>), "udta" \in LargeOf(md))>>
=============================================================================
