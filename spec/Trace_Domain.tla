---------------------------- MODULE Trace_Domain ----------------------------
(***************************************************************************)
(* C16 on the real conversions: each `domain` event reports one mapping    *)
(* run over its whole domain against the tables exported from Enums.tla:   *)
(* how many inputs were checked, how many were expected, how many          *)
(* disagreed with the table (the first few disagreements are listed).      *)
(***************************************************************************)
EXTENDS Naturals, Sequences, Json, IOUtils, TLC, TLCExt
Rec == ndJsonDeserialize(IOEnv.TRACE)
VARIABLES l, run
vars == <<l, run>>
TInit == l = 1 /\ run = ""
ev == Rec[l]
IsEvent(e) == l <= Len(Rec) /\ ev.e = e /\ l' = l + 1
Fail(what, detail) == PrintT(ToJson(<<"FAIL", l, run, "C16", what, detail>>))
Check(cond, what, detail) == IF cond THEN TRUE ELSE Fail(what, detail)
TReset == IsEvent("reset") /\ run' = ev.id
TDomain == /\ IsEvent("domain")
           /\ Check(ev.mismatches = 0, "mapping disagrees with its defining table", <<ev.name, ev.mismatches, ev.first>>)
           /\ Check(ev.checked = ev.expected, "mapping was not run over its whole domain", <<ev.name, ev.checked, ev.expected>>)
           /\ UNCHANGED run
TNext == TReset \/ TDomain
TSpec == TInit /\ [][TNext]_vars
Accepted == TLCGet("stats").diameter - 1 = Len(Rec)
            \/ PrintT(ToJson(<<"STUCK", TLCGet("stats").diameter, Len(Rec),
                        IF TLCGet("stats").diameter <= Len(Rec) THEN Rec[TLCGet("stats").diameter].e ELSE "-">>))
=============================================================================
