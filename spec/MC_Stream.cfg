SPECIFICATION Spec
CONSTANTS
  Plans <- MCPlans
  MaxInterrupts = 2
INVARIANTS Transparent FaultSurfaces NoSpuriousError Prefix
PROPERTY Terminates
CHECK_DEADLOCK FALSE
