-------------------------------- MODULE Meta --------------------------------
(***************************************************************************)
(* iTunes-style metadata (C18): moov/udta/meta/hdlr('mdir')/ilst with the  *)
(* items (c)nam, (c)day, covr, desc, each holding a `data` box             *)
(* [type indicator u32][locale u32][payload].  `meta` may be an ISO        *)
(* FullBox (version/flags word) or QuickTime style (children follow the    *)
(* header directly).  Accessor semantics:                                  *)
(*   title, summary : the payload as UTF-8 text                            *)
(*   year           : decimal text, or the 4-byte big-endian binary form   *)
(*   poster         : the payload verbatim                                 *)
(*   all absent when there is no udta/meta/ilst, when the handler is not   *)
(*   'mdir', or when the item is missing.                                  *)
(***************************************************************************)
EXTENDS Naturals, Integers, Sequences, Wire

NoMeta(shape) == [shape |-> shape, title |-> None, year |-> None, poster |-> None, summary |-> None]

IsDigit(c) == c >= 48 /\ c <= 57
RECURSIVE DecimalR(_, _, _)
DecimalR(s, i, acc) == IF i > Len(s) THEN acc ELSE DecimalR(s, i + 1, Add(MulSmall(acc, 10), FromInt(s[i] - 48)))
\* decimal text -> u32 (absent if empty, not all digits, or >= 2^32)
DecimalU32(s) ==
  IF Len(s) = 0 \/ Len(s) > 18 \/ \E i \in 1..Len(s) : ~IsDigit(s[i]) THEN None
  ELSE LET v == DecimalR(s, 1, <<>>) IN IF Len(v) <= 4 THEN Some(v) ELSE None

\* data box of an item: [some, type, data]
ItemData(b, item) ==
  LET ks == Kids(b, PayloadLo(item), PayloadHi(item)) IN
  IF ~ks.ok \/ ~HasKid(ks.kids, DATA) \/ ~CanData(b, Kid(ks.kids, DATA)) THEN [some |-> FALSE]
  ELSE LET d == DecData(b, Kid(ks.kids, DATA)) IN [some |-> TRUE, type |-> d.data_type, data |-> d.data]

TextOf(b, items, t) ==
  IF ~HasKid(items, t) THEN None
  ELSE LET d == ItemData(b, Kid(items, t)) IN IF d.some THEN Some(d.data) ELSE None

YearOf(b, items) ==
  IF ~HasKid(items, CDAY) THEN None
  ELSE LET d == ItemData(b, Kid(items, CDAY)) IN
       IF ~d.some THEN None
       ELSE IF d.type = <<>> /\ Len(d.data) = 4 THEN Some(Norm(d.data))          \* binary
       ELSE IF d.type = <<1>> THEN DecimalU32(d.data)                             \* text
       ELSE None

\* metadata of a movie: mb = bytes holding the moov, moovKids its children
DecodeMeta(mb, moovKids) ==
  IF ~HasKid(moovKids, UDTA) THEN NoMeta("no udta")
  ELSE LET ud == Kid(moovKids, UDTA)
           uk == Kids(mb, PayloadLo(ud), PayloadHi(ud))
       IN IF ~uk.ok \/ ~HasKid(uk.kids, META) THEN NoMeta("no meta")
          ELSE LET me == Kid(uk.kids, META)
                   p  == PayloadLo(me)
                   qt == me.s - me.h >= 8 /\ n32(mb, p) # <<>> /\ cc(mb, p + 4) = HDLR    \* no version/flags word
                   lo == IF qt THEN p ELSE p + 4
                   mk == Kids(mb, lo, PayloadHi(me))
               IN IF me.s - me.h < 4 \/ ~mk.ok \/ ~HasKid(mk.kids, HDLR) \/ ~CanHdlr(mb, Kid(mk.kids, HDLR))
                  THEN NoMeta("meta malformed")
                  ELSE IF DecHdlr(mb, Kid(mk.kids, HDLR)).handler_type # MDIR THEN NoMeta("handler not mdir")
                  ELSE IF ~HasKid(mk.kids, ILST) THEN NoMeta("no ilst")
                  ELSE LET il == Kid(mk.kids, ILST)
                           ik == Kids(mb, PayloadLo(il), PayloadHi(il))
                       IN IF ~ik.ok THEN NoMeta("ilst malformed")
                          ELSE [ shape |-> IF qt THEN "mdir, no version/flags word" ELSE "mdir",
                                 title |-> TextOf(mb, ik.kids, CNAM), year |-> YearOf(mb, ik.kids),
                                 poster |-> TextOf(mb, ik.kids, COVR), summary |-> TextOf(mb, ik.kids, DESC) ]

MetaDiff(e, m) ==
  (IF e.title = m.title THEN {} ELSE {"title"}) \cup (IF e.year = m.year THEN {} ELSE {"year"})
  \cup (IF e.poster = m.poster THEN {} ELSE {"poster"}) \cup (IF e.summary = m.summary THEN {} ELSE {"summary"})
=============================================================================
