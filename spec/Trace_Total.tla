---------------------------- MODULE Trace_Total ----------------------------
(***************************************************************************)
(* C06 / C07 / C08 on recorded executions of the real reader over          *)
(* adversarial inputs (boundary substitution at every offset, pairs over   *)
(* the field map, havoc).  A `block` event carries, for up to 400          *)
(* executions, parallel arrays of the input length n, the stream           *)
(* operations and bytes moved (budgeted stream), the peak of live heap     *)
(* bytes and the largest single allocation request (counting allocator),   *)
(* and a status code: 0 ok, 1 err, 2 panic, +4 operation budget exceeded.  *)
(* Anomalous executions additionally have a `case` event with the input.   *)
(*   C06  status in {ok, err}                                              *)
(*   C07  ops <= OpsBound(n), bytes <= BytesBound(n), budget never hit,    *)
(*        no execution slower than the wall-clock guard                    *)
(*   C08  largest request <= ReqBound(n), peak <= PeakBound(n)             *)
(***************************************************************************)
EXTENDS Naturals, Sequences, FiniteSets, Json, IOUtils, TLC, TLCExt

Rec == ndJsonDeserialize(IOEnv.TRACE)
VARIABLES l, run
vars == <<l, run>>
TInit == l = 1 /\ run = ""
ev == Rec[l]
IsEvent(e) == l <= Len(Rec) /\ ev.e = e /\ l' = l + 1
Fail(prop, what, detail) == PrintT(ToJson(<<"FAIL", l, run, prop, what, detail>>))
Check(cond, prop, what, detail) == IF cond THEN TRUE ELSE Fail(prop, what, detail)

\* the fixed linear functions of the input length
OpsBound(n)   == 32 * n + 4096
BytesBound(n) == 64 * n + 65536
ReqBound(n)   == 16 * n + 16777216
PeakBound(n)  == 64 * n + 16777216

TReset == IsEvent("reset") /\ run' = ev.id

Bad(p(_)) == {i \in 1..Len(ev.n) : ~p(i)}

TBlock ==
  /\ IsEvent("block")
  /\ Check(\A i \in 1..Len(ev.st) : ev.st[i] % 4 \in {0, 1}, "C06", "panic in the reader API (see the case events)", Cardinality(Bad(LAMBDA i : ev.st[i] % 4 \in {0, 1})))
  /\ Check(\A i \in 1..Len(ev.st) : ev.st[i] < 4, "C07", "operation budget exceeded (see the case events)", Cardinality(Bad(LAMBDA i : ev.st[i] < 4)))
  /\ Check(\A i \in 1..Len(ev.n) : ev.ops[i] <= OpsBound(ev.n[i]), "C07", "stream operations above the linear bound", Cardinality(Bad(LAMBDA i : ev.ops[i] <= OpsBound(ev.n[i]))))
  /\ Check(\A i \in 1..Len(ev.n) : ev.bytes[i] <= BytesBound(ev.n[i]), "C07", "bytes transferred above the linear bound", Cardinality(Bad(LAMBDA i : ev.bytes[i] <= BytesBound(ev.n[i]))))
  /\ Check(\A i \in 1..Len(ev.n) : ev.maxreq[i] <= ReqBound(ev.n[i]), "C08", "single allocation above the linear bound", Cardinality(Bad(LAMBDA i : ev.maxreq[i] <= ReqBound(ev.n[i]))))
  /\ Check(\A i \in 1..Len(ev.n) : ev.peak[i] <= PeakBound(ev.n[i]), "C08", "peak memory above the linear bound", Cardinality(Bad(LAMBDA i : ev.peak[i] <= PeakBound(ev.n[i]))))
  /\ UNCHANGED run

\* one anomalous execution, with what was substituted (its input is in the event for replay)
TCase ==
  /\ IsEvent("case")
  /\ Check(ev.status # "panic", "C06", "panic", <<ev.site, ev.what, ev.mode>>)
  /\ Check(~ev.budget_hit, "C07", "no termination within the operation budget", <<ev.what, ev.n, ev.ops>>)
  /\ Check(ev.slow_ms = 0, "C07", "execution slower than the wall-clock guard", <<ev.what, ev.slow_ms>>)
  /\ Check(ev.ops <= OpsBound(ev.n), "C07", "stream operations above the linear bound", <<ev.what, ev.n, ev.ops>>)
  /\ Check(ev.bytes <= BytesBound(ev.n), "C07", "bytes transferred above the linear bound", <<ev.what, ev.n, ev.bytes>>)
  /\ Check(ev.maxreq <= ReqBound(ev.n), "C08", "single allocation above the linear bound", <<ev.what, ev.n, ev.maxreq>>)
  /\ Check(ev.peak <= PeakBound(ev.n), "C08", "peak memory above the linear bound", <<ev.what, ev.n, ev.peak>>)
  /\ UNCHANGED run

\* a worker process that died (abort, stack overflow, out of memory kill)
\* ev.alloc > 0: the runtime reported "memory allocation of N bytes failed" (N saturated at 2^31 - 1)
TCrash == /\ IsEvent("crash")
          /\ Fail("C06", "the process aborted", <<ev.signal, ev.last>>)
          /\ Check(ev.alloc = 0, "C08", "an allocation request the process could not satisfy (abort)", <<ev.alloc, ev.last>>)
          /\ UNCHANGED run

TNext == TReset \/ TBlock \/ TCase \/ TCrash
TSpec == TInit /\ [][TNext]_vars
Accepted == TLCGet("stats").diameter - 1 = Len(Rec)
            \/ PrintT(ToJson(<<"STUCK", TLCGet("stats").diameter, Len(Rec),
                        IF TLCGet("stats").diameter <= Len(Rec) THEN Rec[TLCGet("stats").diameter].e ELSE "-">>))
=============================================================================
