------------------------------- MODULE Lookup -------------------------------
(***************************************************************************)
(* The library's sample lookup for non-fragmented tracks, transcribed step *)
(* by step from track.rs / stsc.rs (implementation-shaped; the reference   *)
(* is SampleTable!Sem):                                                    *)
(*   FirstSamples      StscBox::read_box, the first_sample derivation pass *)
(*   StscIndex         Mp4Track::stsc_index                                *)
(*   ChunkOffset       Mp4Track::chunk_offset                              *)
(*   SampleSize        Mp4Track::sample_size (stbl branch)                 *)
(*   SampleOffset      Mp4Track::sample_offset (stbl branch)               *)
(*   SampleTime        Mp4Track::sample_time (stbl branch)                 *)
(*   CttsIndex / RenderingOffset, IsSync                                   *)
(*   ReadSample        Mp4Track::read_sample, incl. the mapping of         *)
(*                     EntryInStblNotFound to Ok(None)                      *)
(* Results are [res, ...] with res in {"some","none","err","panic"}.        *)
(***************************************************************************)
EXTENDS Naturals, Integers, Sequences, Big, SampleTable

\* first_sample of every stsc entry: sample_id accumulates (next.first - first) * spc
RECURSIVE FirstSamplesR(_, _, _, _)
FirstSamplesR(es, i, sid, acc) ==
  IF i > Len(es) THEN acc
  ELSE FirstSamplesR(es, i + 1,
                     IF i < Len(es) THEN (es[i + 1].first - es[i].first) * es[i].spc + sid ELSE sid,
                     Append(acc, sid))
FirstSamples(es) == FirstSamplesR(es, 1, 1, <<>>)

Err(why) == [res |-> "err", why |-> why]
NotFound == [res |-> "notfound"]              \* Error::EntryInStblNotFound
Ok(v) == [res |-> "ok", v |-> v]

\* stsc_index: the entry before the first one whose first_sample exceeds k
RECURSIVE StscIndexR(_, _, _)
StscIndexR(fs, k, i) ==
  IF i > Len(fs) THEN Ok(Len(fs))
  ELSE IF k < fs[i] THEN (IF i = 1 THEN Err("sample not found") ELSE Ok(i - 1))
  ELSE StscIndexR(fs, k, i + 1)
StscIndex(t, k) == IF Len(t.stsc) = 0 THEN Err("no stsc entries") ELSE StscIndexR(FirstSamples(t.stsc), k, 1)

ChunkOffset(t, c) == IF c >= 1 /\ c <= Len(t.co.entries) THEN Ok(t.co.entries[c]) ELSE NotFound

SampleSize(t, k) ==
  IF t.stsz.size > 0 THEN Ok(t.stsz.size)
  ELSE IF k >= 1 /\ k <= Len(t.stsz.sizes) THEN Ok(t.stsz.sizes[k]) ELSE NotFound

\* sum of sample_size(i) for i in lo..hi-1 (a Big: u64 in the code, checked); stops at the first failure
RECURSIVE SizeSumR(_, _, _, _)
SizeSumR(t, i, hi, acc) ==
  IF i >= hi THEN Ok(acc)
  ELSE LET s == SampleSize(t, i) IN
       IF s.res # "ok" THEN s ELSE SizeSumR(t, i + 1, hi, Add(acc, FromInt(s.v)))

U64Max == <<255, 255, 255, 255, 255, 255, 255, 255>>
FitsU64(a) == Len(a) <= 8

SampleOffset(t, k) ==
  LET ix == StscIndex(t, k) IN
  IF ix.res # "ok" THEN ix
  ELSE LET e  == t.stsc[ix.v]
           fs == FirstSamples(t.stsc)[ix.v]
       IN IF e.spc = 0 THEN Err("stsc entry with zero samples per chunk")
          ELSE LET chunk == (k - fs) \div e.spc + e.first
                   co    == ChunkOffset(t, chunk)
               IN IF co.res # "ok" THEN co
                  ELSE LET firstInChunk == k - ((k - fs) % e.spc) IN
                       IF t.stsz.size > 0
                       THEN \* constant sample size: (samples before k in the chunk) * size, in 64 bits, checked
                            LET off == Add(co.v, Mul(FromInt(k - firstInChunk), FromInt(t.stsz.size))) IN
                            IF FitsU64(off) THEN Ok(off) ELSE Err("overflow")
                       ELSE LET sum == SizeSumR(t, firstInChunk, k, <<>>) IN
                            IF sum.res # "ok" THEN sum
                            ELSE IF FitsU64(Add(co.v, sum.v)) THEN Ok(Add(co.v, sum.v)) ELSE Err("overflow")

\* sample_time: walk the stts runs
RECURSIVE SampleTimeR(_, _, _, _, _)
SampleTimeR(es, k, i, cnt, elapsed) ==
  IF i > Len(es) THEN NotFound
  ELSE IF k < cnt + es[i].count
       THEN Ok([start |-> Add(Mul(FromInt(k - cnt), es[i].delta), elapsed), dur |-> es[i].delta])
       ELSE SampleTimeR(es, k, i + 1, cnt + es[i].count, Add(elapsed, Mul(FromInt(es[i].count), es[i].delta)))
SampleTime(t, k) == SampleTimeR(t.stts, k, 1, 1, <<>>)

RECURSIVE CttsIndexR(_, _, _, _)
CttsIndexR(es, k, i, cnt) ==
  IF i > Len(es) THEN 0
  ELSE IF k < cnt + es[i].count THEN i ELSE CttsIndexR(es, k, i + 1, cnt + es[i].count)
RenderingOffset(t, k) ==
  IF ~t.ctts.some THEN 0
  ELSE LET i == CttsIndexR(t.ctts.entries, k, 1, 1) IN IF i = 0 THEN 0 ELSE t.ctts.entries[i].offset

\* binary_search on stss.entries (correct on sorted input)
IsSync(t, k) == IF t.stss.some THEN \E i \in 1..Len(t.stss.entries) : t.stss.entries[i] = k ELSE TRUE

ReadSample(t, k) ==
  LET off == SampleOffset(t, k) IN
  IF off.res = "notfound" THEN [res |-> "none"]
  ELSE IF off.res # "ok" THEN [res |-> off.res]
  ELSE LET sz == SampleSize(t, k) IN
       IF sz.res = "notfound" THEN [res |-> "none"]
       ELSE IF sz.res # "ok" THEN [res |-> sz.res]
       ELSE LET tm == SampleTime(t, k) IN
            IF tm.res # "ok" THEN [res |-> "panic"]        \* sample_time(..).unwrap()
            ELSE [ res |-> "some", off |-> off.v, size |-> sz.v, start |-> tm.v.start, dur |-> tm.v.dur,
                   cts |-> RenderingOffset(t, k), sync |-> IsSync(t, k) ]

\* the reference answer, in the same shape
Reference(t, k) ==
  IF k >= 1 /\ k <= N(t)
  THEN LET s == Sem(t)[k] IN
       [ res |-> "some", off |-> s.off, size |-> s.size, start |-> s.start, dur |-> s.dur, cts |-> s.cts, sync |-> s.sync ]
  ELSE [ res |-> "absent" ]

\* refinement: inside 1..n exactly the reference; outside never a sample, never a panic
Agrees(t, k) ==
  LET r == ReadSample(t, k)  e == Reference(t, k) IN
  IF e.res = "some" THEN r = e ELSE r.res \in {"none", "err"}
=============================================================================
