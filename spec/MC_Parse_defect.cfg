SPECIFICATION Spec
CONSTANTS
  N = 40
  Sizes = {0, 1, 7, 8, 9, 16, 39, 40, 41, 100}
  GuardSmall = FALSE
  GuardLarge = TRUE
INVARIANTS AllocBounded
CONSTRAINT Bounded
PROPERTIES Progress Terminates
CHECK_DEADLOCK FALSE
