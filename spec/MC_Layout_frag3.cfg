SPECIFICATION Spec
CONSTANTS
  Base = "frag"
  MaxOps = 3
  OpKinds = {"free", "unk", "swap", "large", "spare"}
INVARIANTS LayoutInvariant Emit
CHECK_DEADLOCK FALSE
