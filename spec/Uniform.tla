------------------------------ MODULE Uniform ------------------------------
(***************************************************************************)
(* C03 for sample counts far beyond what can be enumerated (up to the      *)
(* 2^32 - 1 of the count field): the UNIFORM table sets                    *)
(*   n samples of one constant size, one time-to-sample run (n, delta),    *)
(*   at most one composition-offset run (n, cts), no sync table,           *)
(*   chunks of spc samples (the last one holds the rest), chunk c placed   *)
(*   at base + (c - 1) * (spc * size + gap).                               *)
(* For these the ISO semantics (SampleTable!Sem) has a closed form in      *)
(* (n, size, delta, cts, spc, gap, base, k); MC_Uniform checks with TLC    *)
(* that the closed form IS SampleTable!Sem of the explicit table set for   *)
(* every small instance, Trace_Uniform uses it to judge what the real      *)
(* reader answers for n up to 2^32 - 1.  Numbers are Bigs (base-256 digit  *)
(* sequences): TLC's integers end at 2^31 - 1.                             *)
(***************************************************************************)
EXTENDS Naturals, Integers, Sequences, Big

\* u = [n : Big, size : Nat, delta : Big, hasCts : BOOLEAN, cts : Int, spc : Big (>= 1), gap : Nat, base : Big]
ChunkStride(u) == Add(MulSmall(u.spc, u.size), FromInt(u.gap))
\* 0-based index k0 = k - 1
ChunkOf0(u, k0) == BigDiv(k0, u.spc)                                   \* 0-based chunk
InChunk0(u, k0) == Sub(k0, Mul(ChunkOf0(u, k0), u.spc))                \* index inside the chunk
UOffset(u, k)  == LET k0 == Sub(k, <<1>>) IN
                  Add(u.base, Add(Mul(ChunkOf0(u, k0), ChunkStride(u)), MulSmall(InChunk0(u, k0), u.size)))
UStart(u, k)   == Mul(Sub(k, <<1>>), u.delta)
UInRange(u, k) == k # <<>> /\ Leq(k, u.n)
USample(u, k)  == [off |-> UOffset(u, k), size |-> u.size, start |-> UStart(u, k), dur |-> u.delta,
                   cts |-> IF u.hasCts THEN u.cts ELSE 0, sync |-> TRUE]

\* number of chunks and the explicit chunk-offset table (only for instances small enough to enumerate)
NChunks(u) == LET q == BigDiv(u.n, u.spc) IN IF Mul(q, u.spc) = u.n THEN q ELSE Add(q, <<1>>)
=============================================================================
