----------------------------- MODULE Trace_Wire -----------------------------
(***************************************************************************)
(* C04 / C05 on the real codecs.  Each `wire` event is one case of MC_Wire *)
(* (type t, value v, reference bytes enc) together with what the library   *)
(* did with it: the value it decoded from enc (with a sibling box          *)
(* following), where it left the stream, the bytes it re-encoded, the      *)
(* count it returned, box_size(), whether decode-encode-decode is a        *)
(* fixpoint, and the values decoded from the 64-bit-header and spare-byte  *)
(* variants.                                                               *)
(*   C05  decoded value = v;  re-encoded bytes = enc byte for byte (for    *)
(*        boxes whose child order is free: the reference decoder reads v   *)
(*        back from them);  variants decode to v.                          *)
(*   C04  stream left exactly at the end of the box;  returned count =     *)
(*        bytes written = box_size() = size field;  own four-character     *)
(*        code;  fixpoint.                                                 *)
(***************************************************************************)
EXTENDS WireAll, Json, IOUtils, TLCExt
Rec == ndJsonDeserialize(IOEnv.TRACE)
VARIABLES l, run
vars == <<l, run>>
TInit == l = 1 /\ run = ""
ev == Rec[l]
IsEvent(e) == l <= Len(Rec) /\ ev.e = e /\ l' = l + 1
Fail(prop, what, detail) == PrintT(ToJson(<<"FAIL", l, run, prop, what, detail>>))
Check(cond, prop, what, detail) == IF cond THEN TRUE ELSE Fail(prop, what, detail)
TReset == IsEvent("reset") /\ run' = ev.id

Id == <<ev.t, ev.mode, ev.id>>

TWire ==
  /\ IsEvent("wire")
  /\ IF ev.unsupported THEN Fail("C04", "box type not executed by the harness", ev.t)
     ELSE
     /\ Check(ev.dec.res = "ok", "C05", "reference bytes are not decoded", <<Id, ev.dec.res, ev.dec.msg>>)
     /\ IF ev.dec.res # "ok" THEN TRUE
        ELSE /\ Check(ev.dec.v = ev.v, "C05", "decoded value differs from the encoded value", Id)
             /\ Check(ev.dec.pos = Len(ev.enc), "C04", "stream not left at the end of the box", <<Id, ev.dec.pos, Len(ev.enc)>>)
             /\ Check(ev.reenc_res = "ok", "C04", "decoded value cannot be re-encoded", <<Id, ev.reenc_res>>)
             /\ IF ev.reenc_res # "ok" THEN TRUE
                ELSE /\ Check(IF OrderFree(ev.t)
                              THEN Whole(ev.reenc).ok /\ Whole(ev.reenc).s = Len(ev.reenc) /\ DecAny(ev.t, ev.reenc, Whole(ev.reenc)) = ev.v
                              ELSE ev.reenc = ev.enc,
                              "C05", "bytes produced differ from the reference layout", Id)
                     /\ Check(ev.ret = Len(ev.reenc) /\ ev.box_size = Len(ev.reenc), "C04",
                              "returned count / box_size() differ from the bytes written", <<Id, ev.ret, ev.box_size, Len(ev.reenc)>>)
                     /\ Check(Len(ev.reenc) >= 8 /\ Whole(ev.reenc).ok /\ Whole(ev.reenc).s = Len(ev.reenc) /\ Whole(ev.reenc).t = CodeOf(ev.t),
                              "C04", "header size / four-character code wrong", Id)
                     /\ Check(ev.fix, "C04", "re-encoding is not a fixpoint", Id)
     \* C04, library-internal: the value decoded from the box alone, written by the library and read back
     \* with a sibling following, is the same value and leaves the stream at the end of the box
     /\ IF ev.alone.res = "ok" /\ ev.self_reenc = "ok"
        THEN Check(ev.self_ok /\ ev.self_pos = ev.self_len, "C04",
                   "decode(encode(x)) with a sibling following differs from x or does not consume exactly the box", <<Id, ev.self_ok, ev.self_pos, ev.self_len>>)
        ELSE TRUE
     \* C04 / C05 on the value CONSTRUCTED from v with the library's public fields (not obtained from the
     \* decoder): the library encodes it to the reference bytes, returns the count, and decoding those
     \* bytes with a sibling following yields a value == the constructed one, at the end of the box
     /\ LET b == ev.built IN
        IF b.res \in {"none", "unbuildable"} THEN TRUE
        ELSE /\ Check(b.res = "ok", "C04", "a representable value is not encoded", <<Id, b.res, b.msg>>)
             /\ IF b.res # "ok" THEN TRUE
                ELSE /\ Check(IF OrderFree(ev.t)
                              THEN Whole(b.enc).ok /\ Whole(b.enc).s = Len(b.enc) /\ DecAny(ev.t, b.enc, Whole(b.enc)) = ev.v
                              ELSE b.enc = ev.enc,
                              "C05", "bytes produced for a constructed value differ from the reference layout", Id)
                     /\ Check(b.ret = Len(b.enc) /\ b.box_size = Len(b.enc), "C04",
                              "returned count / box_size() differ from the bytes written (constructed value)", <<Id, b.ret, b.box_size, Len(b.enc)>>)
                     /\ Check(b.rt_res = "ok" /\ b.rt_eq /\ b.rt_pos = Len(b.enc), "C04",
                              "decode(encode(x)) differs from the constructed x or does not consume exactly the box", <<Id, b.rt_res, b.rt_eq, b.rt_pos, Len(b.enc)>>)
     \* the bytes decode to the same value through a stream that transfers fewer bytes per call than
     \* requested (one byte, up to 7, up to 300 per call)
     /\ Check(ev.split_ok, "C04", "decode(encode(x)) through a stream with short transfers differs from x", Id)
     /\ Check(ev.dec.res # "ok" \/ ev.dec.hdr_type = CodeOf(ev.t), "C05", "header read with another box type", <<Id, ev.dec.hdr_type>>)
     /\ \A i \in 1..Len(ev.variants) :
          LET x == ev.variants[i] IN
          /\ Check(IF x.dec.res = "ok" THEN x.dec.v = ev.v /\ x.dec.hdr_type = CodeOf(ev.t) ELSE FALSE, "C05", "non-canonical form decodes differently", <<Id, x.kind, x.dec.res>>)
          /\ IF x.dec.res # "ok" THEN TRUE
             ELSE Check(x.dec.pos = x.len, "C04", "stream not left at the end of the box (variant)", <<Id, x.kind>>)
  /\ UNCHANGED run

TNext == TReset \/ TWire
TSpec == TInit /\ [][TNext]_vars
Accepted == TLCGet("stats").diameter - 1 = Len(Rec)
            \/ PrintT(ToJson(<<"STUCK", TLCGet("stats").diameter, Len(Rec),
                        IF TLCGet("stats").diameter <= Len(Rec) THEN Rec[TLCGet("stats").diameter].e ELSE "-">>))
=============================================================================
