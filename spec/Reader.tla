------------------------------- MODULE Reader -------------------------------
(***************************************************************************)
(* Property-level specification of a reader session (C03, C09, C12, C15,   *)
(* C18).  Open fixes the file; afterwards the state never changes, and the *)
(* answer to every call is a function of the file and the call's           *)
(* arguments:                                                              *)
(*   TrackIds(f), Count(f, t), Sample(f, t, k), Metadata(f).               *)
(* The file is the abstract structure decoded from raw bytes by the        *)
(* specification (DecodeInput): per track the list of samples according to *)
(* the reference semantics -- SampleTable!Sem for sample tables,           *)
(* Frag!FragSamples for movie fragments.  A track is Known when its tables *)
(* are mutually consistent (C03) / its runs are in the domain of C09.      *)
(***************************************************************************)
EXTENDS Naturals, Integers, Sequences, FiniteSets, SequencesExt, Iso, Frag, Meta

VARIABLE file

NoFileYet == [ok |-> FALSE, why |-> "no file"]
RInit == file = NoFileYet

Open(f) == file' = f

-----------------------------------------------------------------------------
PlainSamples(tb) ==
  LET sem == Sem(tb) IN
  [k \in 1..N(tb) |-> [off |-> sem[k].off, size |-> sem[k].size, start |-> sem[k].start, dur |-> sem[k].dur,
                       cts |-> sem[k].cts, sync |-> sem[k].sync, syncKnown |-> TRUE]]

\* e = the `file` event: e.img the bytes handed to the reader; e.init (when e.has_init) the
\* initialization segment a media segment was opened against
DecodeInput(e) ==
  LET mimg == IF e.has_init THEN e.init ELSE e.img IN
  Let(DecodeMovie(mimg), LAMBDA mv :
  IF ~mv.ok THEN [ok |-> FALSE, why |-> mv.why]
  ELSE
  Let(Top(e.img), LAMBDA top :
  IF ~top.ok THEN [ok |-> FALSE, why |-> top.why]
  ELSE
  Let(SelectSeq(top.boxes, LAMBDA x : x.t = MOOF), LAMBDA mfs :
  Let([i \in 1..Len(mfs) |-> DecodeMoof(e.img, mfs[i])], LAMBDA moofs :
  IF \E i \in 1..Len(moofs) : ~moofs[i].ok
  THEN [ok |-> FALSE, why |-> moofs[CHOOSE i \in 1..Len(moofs) : ~moofs[i].ok].why]
  ELSE
  LET moovK == Kids(mv.mb, PayloadLo(mv.mk), PayloadHi(mv.mk)).kids
      trexs == DecodeMvex(mv.mb, moovK)
      frag  == Len(moofs) > 0
      trk(i) ==
        LET tr == mv.traks[i]  id == tr.tkhd.track_id IN
        IF frag
        THEN LET fs == FragSamples(moofs, id, TrexDefault(trexs, id)) IN
             [ id |-> ToInt(id), known |-> fs.inDomain, samples |-> fs.samples,
               flags |-> (IF fs.largeMoof THEN {"moof with 64-bit header"} ELSE {})
                         \cup (IF fs.usesTrex /\ \E a \in 1..Len(trexs), c \in 1..Len(trexs) :
                                      trexs[a].default_sample_duration # trexs[c].default_sample_duration
                               THEN {"movie-level default durations differ between tracks"} ELSE {}) ]
        ELSE [ id |-> ToInt(id), known |-> Consistent(tr.tbl),
               samples |-> IF Consistent(tr.tbl) THEN PlainSamples(tr.tbl) ELSE <<>>, flags |-> {} ]
  IN IF \E i \in 1..Len(mv.traks) : ~IsSmall(mv.traks[i].tkhd.track_id)
     THEN [ok |-> FALSE, why |-> "track id does not fit 31 bits"]
     ELSE [ ok |-> TRUE, why |-> "", img |-> e.img, frag |-> frag,
            mvhd |-> [timescale |-> mv.mvhd.timescale, duration |-> mv.mvhd.duration],
            tracks |-> [i \in 1..Len(mv.traks) |-> trk(i)],
            meta |-> DecodeMeta(mv.mb, moovK) ] ))))

-----------------------------------------------------------------------------
TrackIndex(f, t) == CHOOSE i \in 1..Len(f.tracks) : f.tracks[i].id = t
HasTrack(f, t) == \E i \in 1..Len(f.tracks) : f.tracks[i].id = t
\* ids in increasing order (the harness sorts the reader's map keys)
TrackIds(f) == SetToSortSeq({f.tracks[i].id : i \in 1..Len(f.tracks)}, LAMBDA a, b : a < b)
Known(f, t) == f.tracks[TrackIndex(f, t)].known
Count(f, t) == Len(f.tracks[TrackIndex(f, t)].samples)
Sample(f, t, k) == f.tracks[TrackIndex(f, t)].samples[k]
Flags(f, t) == f.tracks[TrackIndex(f, t)].flags
\* inside the file / inside a part of the file whose bytes were logged (a sparse file is longer than
\* the bytes given: the rest reads as zero and is not compared)
InFile(f, off, size) == size = 0 \/ (Leq(f.img.start, off) /\ Leq(Add(off, FromInt(size)), f.img.len))
Logged(f, off, size) == size = 0 \/ SegOf(f.img, off, size) # 0
BytesAt(f, off, size) == Win(f.img, off, size)
Metadata(f) == f.meta
\* movie-level accessors: the movie header's timescale; its duration in milliseconds (0 for timescale 0)
MovieTimescale(f) == f.mvhd.timescale
\* (saturating at 2^64 - 1, the largest Duration::from_millis argument)
MovieDurationMs(f) == IF f.mvhd.timescale = <<>> THEN <<>>
                      ELSE LET ms == BigDiv(Mul(f.mvhd.duration, <<3, 232>>), f.mvhd.timescale) IN
                           IF Len(ms) > 8 THEN <<255, 255, 255, 255, 255, 255, 255, 255>> ELSE ms
=============================================================================
