SPECIFICATION ISpec
CONSTANTS
  WB = 1
  MovieTs <- Three
  StartPos <- Zero
  FtypLen = 4
  Confs <- Confs1
  Alphabet <- AlphaSmall
  MaxSamples = 4
  MaxRejects = 1
  FixEmptyChunk = TRUE
  FixStss = TRUE
  FixTkhd = TRUE
INVARIANTS OutputWellFormed OutputDecodes EmitCase
PROPERTY RejectsInvisible
CHECK_DEADLOCK FALSE
