---------------------------- MODULE MC_MuxImpl ----------------------------
(* Bounded instances of MuxImpl.  Width scaled to one byte per "32-bit" field. *)
EXTENDS MuxImpl

\* track timescale 2: a chunk is flushed as soon as 2 ticks are pending
Conf(ts) == [timescale |-> ts]

\* C01/C02 alphabet: sizes {0,1,2} x durations {0,1,2(=T),3} x cts {0,1,-1} x sync, pairwise-reduced
AlphaSmall ==
  { [len |-> 0, dur |-> <<>>,  cts |-> 0,  sync |-> TRUE ],
    [len |-> 1, dur |-> <<1>>, cts |-> 0,  sync |-> TRUE ],
    [len |-> 2, dur |-> <<2>>, cts |-> 1,  sync |-> FALSE],
    [len |-> 1, dur |-> <<3>>, cts |-> -1, sync |-> FALSE],
    [len |-> 0, dur |-> <<1>>, cts |-> 1,  sync |-> FALSE],
    [len |-> 2, dur |-> <<>>,  cts |-> -1, sync |-> TRUE ],
    [len |-> 1, dur |-> <<2>>, cts |-> 0,  sync |-> FALSE],
    [len |-> 0, dur |-> <<2>>, cts |-> 0,  sync |-> FALSE],
    [len |-> 2, dur |-> <<1>>, cts |-> 0,  sync |-> TRUE ],
    [len |-> 1, dur |-> <<1>>, cts |-> 1,  sync |-> TRUE ] }

\* C13 alphabet: values that put sums below, at and above 256 (the scaled 2^32)
AlphaWide ==
  { [len |-> 1,   dur |-> <<1>>,   cts |-> 0, sync |-> TRUE],
    [len |-> 128, dur |-> <<128>>, cts |-> 0, sync |-> TRUE],
    [len |-> 127, dur |-> <<255>>, cts |-> 0, sync |-> FALSE],
    [len |-> 1,   dur |-> <<127>>, cts |-> 0, sync |-> TRUE] }

Confs1 == << Conf(<<2>>) >>
Confs2 == << Conf(<<2>>), Conf(<<3>>) >>
ConfsW == << Conf(<<200>>) >>           \* one second = 200 ticks: chunks of several samples
ConfsW2 == << Conf(<<3>>), Conf(<<2>>) >>
Two == <<2>>
Three == <<3>>
Zero == <<>>
\* C13 alphabets (scaled: 128 ~ 2^31, 255 ~ 2^32-1, 127 ~ 2^31-1)
AlphaWideDur ==
  { [len |-> 1, dur |-> <<1>>,   cts |-> 0, sync |-> TRUE],
    [len |-> 1, dur |-> <<127>>, cts |-> 0, sync |-> FALSE],
    [len |-> 2, dur |-> <<128>>, cts |-> 1, sync |-> TRUE],
    [len |-> 1, dur |-> <<255>>, cts |-> 0, sync |-> TRUE] }
AlphaWideLen ==        \* every size below 2^31 at real width: 127 ~ 2^31-1, 113 ~ 2^31-15, 112 ~ 2^31-16
  { [len |-> 1,   dur |-> <<2>>, cts |-> 0, sync |-> TRUE],
    [len |-> 112, dur |-> <<2>>, cts |-> 0, sync |-> TRUE],
    [len |-> 113, dur |-> <<1>>, cts |-> 0, sync |-> FALSE],
    [len |-> 127, dur |-> <<2>>, cts |-> 0, sync |-> TRUE] }
AlphaPos ==
  { [len |-> 1, dur |-> <<1>>, cts |-> 0, sync |-> TRUE],
    [len |-> 2, dur |-> <<2>>, cts |-> 0, sync |-> FALSE],
    [len |-> 0, dur |-> <<2>>, cts |-> 1, sync |-> TRUE] }
Pos200 == <<200>>
Pos215 == <<215>>                       \* 215 + ftyp 24 + 16 = 255: first chunk exactly at the last 32-bit offset
Pos216 == <<216>>                       \* first chunk at offset 256 (scaled 2^32)
Pos250 == <<250>>                       \* output that starts just below the (scaled) 32-bit limit
==============================================================================
