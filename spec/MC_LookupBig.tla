--------------------------- MODULE MC_LookupBig ---------------------------
(***************************************************************************)
(* C03 beyond 4 GiB: table sets whose samples are so large that offsets    *)
(* inside a chunk, and chunk offsets, cross 2^32 -- constant and           *)
(* per-sample sizes up to 2^31 - 1, several samples per chunk, 32- and     *)
(* 64-bit chunk offset tables.  Leg A: the transcribed lookup (Lookup.tla) *)
(* agrees with the ISO semantics for every sample id.  Leg B: every table  *)
(* set is rendered header-only (Movie!RenderPlainSparse: ftyp, moov and    *)
(* the header of the media data box; the harness reads it through a sparse *)
(* stream of the declared length) and replayed through the real reader.    *)
(***************************************************************************)
EXTENDS Lookup, Movie, Json, SequencesExt

M31 == 2147483647                  \* 2^31 - 1
Sizes == { [size |-> M31, sizes |-> <<>>],                     \* constant, maximal
           [size |-> 1073741824, sizes |-> <<>>],              \* constant 2^30
           [size |-> 0, sizes |-> <<M31, M31, M31, 1, M31>>],  \* per sample
           [size |-> 0, sizes |-> <<M31, 0, M31, M31, 7>>],
           [size |-> 0, sizes |-> <<M31, 1, 2, 3, 7>>] }              \* only the first is huge: the others are read (times inside a run)
Chunkings == { <<5>>, <<4, 1>>, <<2, 3>>, <<1, 4>> }
StscOf(spc) == LET RECURSIVE R(_, _)
                   R(c, acc) == IF c > Len(spc) THEN acc
                                ELSE R(c + 1, IF c > 1 /\ spc[c] = spc[c - 1] THEN acc ELSE Append(acc, [first |-> c, spc |-> spc[c], sdi |-> 1]))
               IN R(1, <<>>)

\* time tables whose runs are worth 2^32 ticks and more (count x delta is a 64-bit product)
Times == { <<[count |-> 5, delta |-> <<3>>]>>,
           <<[count |-> 2, delta |-> <<128, 0, 0, 0>>], [count |-> 3, delta |-> <<5>>]>>,
           <<[count |-> 4, delta |-> <<255, 255, 255, 255>>], [count |-> 1, delta |-> <<1>>]>>,
           <<[count |-> 1, delta |-> <<7>>], [count |-> 3, delta |-> <<170, 170, 170, 170>>], [count |-> 1, delta |-> <<>>]>> }
VARIABLES sz, spc, kind, tt, k, out
vars == <<sz, spc, kind, tt, k, out>>

Tbl == [ stsz |-> [size |-> sz.size, count |-> 5, sizes |-> sz.sizes],
         stts |-> tt, ctts |-> [some |-> FALSE, entries |-> <<>>],
         stss |-> [some |-> FALSE, entries |-> <<>>], stsc |-> StscOf(spc),
         co |-> [kind |-> kind, entries |-> [c \in 1..Len(spc) |-> <<>>]] ]
Trk == << [kind |-> "avc", timescale |-> <<3, 232>>, tbl |-> Tbl] >>
TheMovie == [mts |-> <<3, 232>>, tracks |-> Trk, order |-> AscOrder(Trk), extra |-> <<>>]

\* a single chunk starts below 2^32 and fits a 32-bit chunk offset table although its samples do not
Init == /\ sz \in Sizes /\ spc \in Chunkings /\ kind \in (IF Len(spc) = 1 THEN {"co64", "stco"} ELSE {"co64"}) /\ tt \in Times /\ k = 0 /\ out = <<>>
Step == /\ k <= 7 /\ k' = k + 1
        /\ out' = IF k = 7 THEN RenderPlainSparse(TheMovie) ELSE out
        /\ UNCHANGED <<sz, spc, kind, tt>>
Spec == Init /\ [][Step]_vars

\* leg A on abstract offsets: chunk c starts at 40 + the lengths of the chunks before it
AbstractTbl == LET cl == ChunkLensBig(Tbl) IN [Tbl EXCEPT !.co.entries = BigPrefixR(cl, 1, <<40>>, <<>>)]
LookupAgrees == k <= 7 => Agrees(AbstractTbl, k)
GeneratedConsistent == Consistent(Tbl)
\* samples small enough to be read through the sparse stream (their times are then validated too)
SmallIds == SetToSeq({i \in 1..5 : SizeOf(Tbl, i) <= 64})
Emit == k = 8 => PrintT("CASE " \o ToJson([file |-> out.file, total |-> out.total, n |-> 5, spc |-> spc, small |-> SmallIds]))
=============================================================================
