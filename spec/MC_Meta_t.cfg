SPECIFICATION Spec
CONSTANTS
  Titles = {"absent", "empty", "short", "long", "nulend", "nul"}
  Years = {"absent", "text2008", "bin2008", "textempty", "textabc", "bin3", "bin0", "textutf", "textbad", "bin1", "bin5", "textmax", "textover", "text65536", "text007", "binmax", "bindigits", "int0", "int4", "binzero"}
  Posters = {"absent", "empty", "one", "big"}
  Summaries = {"absent", "short", "utf8", "nulend"}
  Unknowns = {"none", "before", "after", "between", "tiny", "named", "kids"}
  Shapes = {"mdir", "mdirqt", "mdta", "zero", "noilst", "noilstqt", "nometa", "noudta"}
  Hdrs = {"small", "data", "item", "all"}
  MMetas = {"none", "mdtaBefore", "mdirAfter", "mdirBefore"}
  Orders = {"fwd", "rev"}
INVARIANTS MetaRoundTrip Emit
CHECK_DEADLOCK FALSE
