SPECIFICATION Spec
CONSTANTS
  Structures <- ExtraStructures
  TrexDurs <- TrexBoth
  Bases = {"moof", "none", "start", "end", "exact", "both"}
  DurModes = {"per", "tfhd", "trex", "mixA", "tfhd0"}
  CtsModes = {"none", "v0"}
  TfdtVs = {0}
  Orders = {"asc", "desc"}
  TrexPerTrack = FALSE
  MdatFirsts = {FALSE, TRUE}
  Deliveries = {"one", "split"}
INVARIANT Emit
CHECK_DEADLOCK FALSE
