SPECIFICATION Spec
CONSTANTS
  Structures <- ExtraStructures
  TrexDurs <- TrexBoth
  Bases = {"moof", "none", "start", "end", "exact", "both"}
  DurModes = {"per", "tfhd", "trex", "mixA"}
  CtsModes = {"none", "v0"}
  TfdtVs = {0}
  TrexPerTrack = FALSE
  MdatFirsts = {FALSE, TRUE}
  Deliveries = {"one", "split"}
INVARIANT Emit
CHECK_DEADLOCK FALSE
