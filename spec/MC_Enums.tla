------------------------------ MODULE MC_Enums ------------------------------
(* TLC proves the finite-domain statements of Enums by enumeration and exports the defining
   tables (and, for the 2^16-point domains, the COMPLETE expected tables) for the replay of the
   real conversions over their whole domains. *)
EXTENDS Enums, Json
VARIABLE step
Init == step = 0
Next == step < 1 /\ step' = step + 1
Spec == Init /\ [][Next]_step

AvcTable == [ i \in 0..255 |-> [ f \in 0..255 |-> AvcProfileOf(i, f) ] ]
LangTable == [ c \in 0..65535 |-> LangUnpack(c) ]

Theorems == BoxTableInjective /\ LangRoundTrip /\ LangCodeRoundTrip /\ Fx88 /\ Fx88S
            /\ Cardinality(AudioObjectTypes) = 42 /\ Cardinality(BoxNames) = 56

Emit == step = 1 =>
  PrintT("CASE " \o ToJson([ box |-> [n \in BoxNames |-> BoxTypes[n]],
                            handlers |-> Handlers, media |-> MediaNames,
                            aot |-> [i \in 0..255 |-> i \in AudioObjectTypes],
                            freq |-> [i \in 0..255 |-> IF i \in 0..12 THEN FreqIndex[i] ELSE 0],
                            chan |-> [i \in 0..255 |-> i \in ChannelConfigs],
                            datatypes |-> DataTypes,
                            avc |-> [i \in {66, 77, 88, 100, 0, 65, 67, 101, 255} |-> AvcTable[i]],
                            avc_other |-> "reject",
                            lang |-> LangTable,
                            fx88s |-> [ r \in 0..65535 |-> FxValueS(r) ] ]))
=============================================================================
