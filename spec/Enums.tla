-------------------------------- MODULE Enums --------------------------------
(***************************************************************************)
(* C16: the defining tables of the code and enumeration mappings, and the  *)
(* statements that make each mapping "exact over its whole domain".        *)
(*   BoxTypes      four-character code <-> named box type; every other     *)
(*                 32-bit code is Unknown(code)                            *)
(*   Handler       handler four-character code <-> track kind              *)
(*   MediaNames    media kind <-> name                                     *)
(*   AudioObjectTypes, FreqIndex (index -> Hz), ChannelConfigs, DataTypes  *)
(*   AvcProfileOf  (profile_idc, constraint flags byte) -> profile         *)
(*   language      3 x 5 bits, letters minus 0x60 (module Wire: PackLang)  *)
(*   fixed point   8.8 / 16.16: raw <-> integer part                       *)
(* Codes are numbers here (TLC integers for <= 2^31, else Big digits in    *)
(* the exported table).                                                    *)
(***************************************************************************)
EXTENDS Naturals, Integers, Sequences, FiniteSets, TLC

\* name |-> four ASCII / Latin-1 bytes
BoxTypes ==
  [ FtypBox |-> <<102,116,121,112>>, MvhdBox |-> <<109,118,104,100>>, MfhdBox |-> <<109,102,104,100>>,
    FreeBox |-> <<102,114,101,101>>, MdatBox |-> <<109,100,97,116>>,  MoovBox |-> <<109,111,111,118>>,
    MvexBox |-> <<109,118,101,120>>, MehdBox |-> <<109,101,104,100>>, TrexBox |-> <<116,114,101,120>>,
    EmsgBox |-> <<101,109,115,103>>, MoofBox |-> <<109,111,111,102>>, TkhdBox |-> <<116,107,104,100>>,
    TfhdBox |-> <<116,102,104,100>>, TfdtBox |-> <<116,102,100,116>>, EdtsBox |-> <<101,100,116,115>>,
    MdiaBox |-> <<109,100,105,97>>,  ElstBox |-> <<101,108,115,116>>, MdhdBox |-> <<109,100,104,100>>,
    HdlrBox |-> <<104,100,108,114>>, MinfBox |-> <<109,105,110,102>>, VmhdBox |-> <<118,109,104,100>>,
    StblBox |-> <<115,116,98,108>>,  StsdBox |-> <<115,116,115,100>>, SttsBox |-> <<115,116,116,115>>,
    CttsBox |-> <<99,116,116,115>>,  StssBox |-> <<115,116,115,115>>, StscBox |-> <<115,116,115,99>>,
    StszBox |-> <<115,116,115,122>>, StcoBox |-> <<115,116,99,111>>,  Co64Box |-> <<99,111,54,52>>,
    TrakBox |-> <<116,114,97,107>>,  TrafBox |-> <<116,114,97,102>>,  TrunBox |-> <<116,114,117,110>>,
    UdtaBox |-> <<117,100,116,97>>,  MetaBox |-> <<109,101,116,97>>,  DinfBox |-> <<100,105,110,102>>,
    DrefBox |-> <<100,114,101,102>>, UrlBox |-> <<117,114,108,32>>,   SmhdBox |-> <<115,109,104,100>>,
    Avc1Box |-> <<97,118,99,49>>,    AvcCBox |-> <<97,118,99,67>>,    Hev1Box |-> <<104,101,118,49>>,
    HvcCBox |-> <<104,118,99,67>>,   Mp4aBox |-> <<109,112,52,97>>,   EsdsBox |-> <<101,115,100,115>>,
    Tx3gBox |-> <<116,120,51,103>>,  VpccBox |-> <<118,112,99,67>>,   Vp09Box |-> <<118,112,48,57>>,
    DataBox |-> <<100,97,116,97>>,   IlstBox |-> <<105,108,115,116>>, NameBox |-> <<169,110,97,109>>,
    DayBox |-> <<169,100,97,121>>,   CovrBox |-> <<99,111,118,114>>,  DescBox |-> <<100,101,115,99>>,
    WideBox |-> <<119,105,100,101>>, WaveBox |-> <<119,97,118,101>> ]
BoxNames == DOMAIN BoxTypes
\* the table is a bijection between names and codes
BoxTableInjective == \A a, b \in BoxNames : BoxTypes[a] = BoxTypes[b] => a = b

Handlers == [ video |-> <<118,105,100,101>>, audio |-> <<115,111,117,110>>, subtitle |-> <<115,98,116,108>> ]
MediaNames == [ H264 |-> "h264", H265 |-> "h265", VP9 |-> "vp9", AAC |-> "aac", TTXT |-> "ttxt" ]

AudioObjectTypes == (1..9) \cup (12..17) \cup (19..30) \cup (32..46)
FreqIndex == [ i \in 0..12 |-> <<96000, 88200, 64000, 48000, 44100, 32000, 24000, 22050, 16000, 12000, 11025, 8000, 7350>>[i + 1] ]
ChannelConfigs == 1..7
DataTypes == {0, 1, 13, 21}

\* profile_idc 66 with constraint_set1_flag (0x40 of the flags byte) is Constrained Baseline
AvcProfileOf(idc, flags) ==
  CASE idc = 66 /\ (flags \div 64) % 2 = 1 -> "AvcConstrainedBaseline"
    [] idc = 66 -> "AvcBaseline"
    [] idc = 77 -> "AvcMain"
    [] idc = 88 -> "AvcExtended"
    [] idc = 100 -> "AvcHigh"
    [] OTHER -> "reject"

\* packed ISO-639-2/T language: pad bit, 3 x 5 bits
LangUnpack(c) == << ((c \div 1024) % 32) + 96, ((c \div 32) % 32) + 96, (c % 32) + 96 >>
LangPack(l) == ((l[1] - 96) % 32) * 1024 + ((l[2] - 96) % 32) * 32 + ((l[3] - 96) % 32)
Letters == 97..122
LangRoundTrip == \A a \in Letters, b \in Letters, c \in Letters : LangUnpack(LangPack(<<a, b, c>>)) = <<a, b, c>>
LangCodeRoundTrip == \A c \in 0..65535 : LangPack(LangUnpack(c)) = c % 32768

\* fixed point k fractional bits
FxNew(v, k) == v * (2 ^ k)
FxValue(raw, k) == raw \div (2 ^ k)
Fx88 == \A v \in 0..255 : FxValue(FxNew(v, 8), 8) = v
\* signed 8.8: the raw 16-bit word r (two's complement) is the rational S16(r)/256; its value is the
\* integer part of that rational (toward zero: -0.5 has the integer part 0, as +0.5 has)
S16(r) == IF r < 32768 THEN r ELSE r - 65536
FxValueS(r) == IF S16(r) >= 0 THEN S16(r) \div 256 ELSE -((-S16(r)) \div 256)
Fx88S == \A v \in -128..127 : FxValueS((v * 256) % 65536) = v
=============================================================================
