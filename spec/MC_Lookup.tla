----------------------------- MODULE MC_Lookup -----------------------------
(***************************************************************************)
(* C03, legs A and B.  The space of consistent sample-table sets is        *)
(* enumerated (every composition of n samples into chunks, every           *)
(* run-length encoding of the chunk map incl. non-canonical ones, stco /   *)
(* co64, constant / per-sample sizes incl. zeros, stts / ctts run          *)
(* encodings, sync subsets, chunk placements, two interleaved tracks).     *)
(* For each table set a reader session steps through the sample ids        *)
(* 0..n+2; the invariant says that the library's lookup algorithm          *)
(* (Lookup.tla) agrees with the ISO semantics (SampleTable.tla).  Every    *)
(* finished session is rendered to a complete file by the specification    *)
(* (Movie!RenderPlain) and printed as a replay case for the real reader.   *)
(***************************************************************************)
EXTENDS Lookup, Movie, Json, SequencesExt

CONSTANTS MaxN,        \* table sets with up to MaxN samples, structure dimension
          MaxNT,       \* ... time / cts / sync dimensions
          SizeMode     \* "all": every size vector over {0,1,2}; "some": three patterns

-----------------------------------------------------------------------------
SortedSeq(S) == SetToSortSeq(S, LAMBDA a, b : a < b)

\* all sequences of positive integers that sum to n
RECURSIVE Compositions(_)
Compositions(n) == IF n = 0 THEN {<<>>}
                   ELSE UNION {{<<h>> \o r : r \in Compositions(n - h)} : h \in 1..n}

\* stsc encodings of a samples-per-chunk sequence: a new run MUST start where spc changes and MAY
\* start anywhere else (non-canonical encodings with adjacent equal runs)
StscEncodings(spc) ==
  LET C == Len(spc)
      must == IF C = 0 THEN {} ELSE {1} \cup {c \in 2..C : spc[c] # spc[c - 1]}
      opt  == (2..C) \ must
  IN { LET starts == must \cup extra
           seq == SortedSeq(starts)
       IN [i \in 1..Len(seq) |-> [first |-> seq[i], spc |-> spc[seq[i]], sdi |-> 1]]
       : extra \in SUBSET opt }

\* sequences of length n over a set
RECURSIVE Tuples(_, _)
Tuples(S, n) == IF n = 0 THEN {<<>>} ELSE {Append(t, x) : t \in Tuples(S, n - 1), x \in S}

\* run-length encodings of a value sequence: canonical runs, optionally split
RunEncodings(vals, mk(_, _)) ==
  LET n == Len(vals)
      must == IF n = 0 THEN {} ELSE {1} \cup {i \in 2..n : vals[i] # vals[i - 1]}
      opt  == (2..n) \ must
  IN { LET seq == SortedSeq(must \cup extra)
       IN [i \in 1..Len(seq) |-> mk((IF i < Len(seq) THEN seq[i + 1] ELSE n + 1) - seq[i], vals[seq[i]])]
       : extra \in SUBSET opt }

SizeVectors(n) == IF SizeMode = "all" THEN Tuples({0, 1, 2}, n)
                  ELSE { [k \in 1..n |-> (k % 3)], [k \in 1..n |-> 0], [k \in 1..n |-> ((k + 1) % 2) + 1] }

DefaultStts(n) == IF n = 0 THEN <<>> ELSE <<[count |-> n, delta |-> <<3>>]>>
NoCtts == [some |-> FALSE, entries |-> <<>>]
NoStss == [some |-> FALSE, entries |-> <<>>]
Stsz(sizes) == [size |-> 0, count |-> Len(sizes), sizes |-> sizes]
StszConst(c, n) == [size |-> c, count |-> n, sizes |-> <<>>]
Co(kind, C) == [kind |-> kind, entries |-> [c \in 1..C |-> <<>>]]

\* (i) structure: chunking x stsc encoding x sizes x stco/co64
StructTables ==
  UNION { UNION { UNION { UNION { { [stsz |-> sz, stts |-> DefaultStts(n), ctts |-> NoCtts, stss |-> NoStss,
                                     stsc |-> enc, co |-> Co(kind, Len(spc))]
                                   : kind \in {"stco", "co64"} }
                                 : sz \in {Stsz(v) : v \in SizeVectors(n)} \cup (IF n > 0 THEN {StszConst(2, n)} ELSE {}) }
                         : enc \in StscEncodings(spc) }
                 : spc \in Compositions(n) }
         : n \in 0..MaxN }

\* fixed structure for the other dimensions: chunks of 2 (last one shorter), per-sample sizes
BaseSpc(n) == [c \in 1..((n + 1) \div 2) |-> IF 2 * c <= n THEN 2 ELSE 1]
BaseStsc(n) == CHOOSE e \in StscEncodings(BaseSpc(n)) : \A f \in StscEncodings(BaseSpc(n)) : Len(e) <= Len(f)
BaseTbl(n) == [stsz |-> Stsz([k \in 1..n |-> (k % 3)]), stts |-> DefaultStts(n), ctts |-> NoCtts, stss |-> NoStss,
               stsc |-> BaseStsc(n), co |-> Co("stco", Len(BaseSpc(n)))]

\* (ii) times
TimeTables ==
  UNION { UNION { { [BaseTbl(n) EXCEPT !.stts = enc]
                    : enc \in RunEncodings(ds, LAMBDA c, d : [count |-> c, delta |-> FromInt(d)]) }
                 : ds \in Tuples({0, 1, 2}, n) }
         : n \in 1..MaxNT }
\* (iii) composition offsets (present)
CtsTables ==
  UNION { UNION { { [BaseTbl(n) EXCEPT !.ctts = [some |-> TRUE, entries |-> enc]]
                    : enc \in RunEncodings(cs, LAMBDA c, o : [count |-> c, offset |-> o]) }
                 : cs \in Tuples({-1, 0, 2}, n) }
         : n \in 1..MaxNT }
\* (iii') a run of zero samples (legal: "sample_count" may be 0) at every position of a time or
\* composition-offset table; its value differs from every value used
WithZeroRun(enc, z) == { SubSeq(enc, 1, p - 1) \o <<z>> \o SubSeq(enc, p, Len(enc)) : p \in 1..(Len(enc) + 1) }
ZeroRunTables ==
  UNION { UNION { UNION { { [BaseTbl(n) EXCEPT !.ctts = [some |-> TRUE, entries |-> e]]
                            : e \in WithZeroRun(enc, [count |-> 0, offset |-> 9]) }
                          : enc \in RunEncodings(cs, LAMBDA c, o : [count |-> c, offset |-> o]) }
                 : cs \in Tuples({-1, 2}, n) }
         : n \in 1..MaxNT }
  \cup
  UNION { UNION { UNION { { [BaseTbl(n) EXCEPT !.stts = e]
                            : e \in WithZeroRun(enc, [count |-> 0, delta |-> <<9>>]) }
                          : enc \in RunEncodings(ds, LAMBDA c, d : [count |-> c, delta |-> FromInt(d)]) }
                 : ds \in Tuples({1, 2}, n) }
         : n \in 1..MaxNT }
\* (iv) sync tables: empty, every subset
SyncTables ==
  UNION { { [BaseTbl(n) EXCEPT !.stss = [some |-> TRUE, entries |-> SortedSeq(S)]] : S \in SUBSET (1..n) }
         : n \in 1..MaxNT }

AllTables == StructTables \cup TimeTables \cup CtsTables \cup ZeroRunTables \cup SyncTables

Track(kind, ts, tb) == [kind |-> kind, timescale |-> ts, tbl |-> tb]

\* a second, fixed track to interleave with (3 samples in chunks 1 + 2, co64, constant size)
Other == Track("aac", <<187, 128>>,
               [stsz |-> StszConst(3, 3), stts |-> <<[count |-> 2, delta |-> <<4>>], [count |-> 1, delta |-> <<1>>]>>,
                ctts |-> NoCtts, stss |-> NoStss,
                stsc |-> <<[first |-> 1, spc |-> 1, sdi |-> 1], [first |-> 2, spc |-> 2, sdi |-> 1]>>,
                co |-> Co("co64", 2)])

-----------------------------------------------------------------------------
VARIABLES tb,       \* the table set under test (track 1)
          place,    \* chunk placement: "asc" | "rev" | "inter" (with the second track) | "eof"
          k,        \* next sample id of the session
          out       \* the rendered file (set by the last step; rendering is done inside the action
                    \* because TLC caches intermediate values only while it evaluates actions)
vars == <<tb, place, k, out>>

TheMovie ==
  \* (a sync table is legal on a track of any kind: with it the track under test is an audio track in two placements)
  LET kd == IF tb.stss.some /\ place \in {"rev", "eof"} THEN "aac" ELSE "avc"
      trks == IF place = "inter" THEN <<Track("avc", <<3, 232>>, tb), Other>> ELSE <<Track(kd, <<3, 232>>, tb)>>
      ord  == CASE place \in {"asc", "eof", "large", "pad"} -> AscOrder(trks) [] place = "rev" -> Rev(AscOrder(trks))
                [] place = "inter" -> InterOrder(trks)
  IN [mts |-> <<3, 232>>, tracks |-> trks, order |-> ord, extra |-> <<>>]

Init == /\ tb \in AllTables
        /\ place \in {"asc", "rev", "inter", "eof", "large", "pad"}    \* "pad": an empty (8-byte) free box among the sample tables    \* "large": the media data box has a 64-bit size header    \* "eof": the media data box is last and extends to the end of the file (size field 0)
        /\ k = 0 /\ out = <<>>

\* one reader call; the file is immutable
Step == /\ k <= N(tb) + 2
        /\ k' = k + 1
        /\ out' = IF k = N(tb) + 2 THEN RenderPlain(TheMovie, CASE place = "eof" -> <<[op |-> "eof", path |-> <<3>>]>>
                                                                       [] place = "large" -> <<[op |-> "large", path |-> <<3>>]>>
                                                                       [] place = "pad" -> <<[op |-> "free", path |-> <<2, 2, 2, 3, 3>>, at |-> 2, len |-> 0, big |-> FALSE]>> [] OTHER -> <<>>) ELSE out
        /\ UNCHANGED <<tb, place>>
Next == Step
Spec == Init /\ [][Next]_vars

\* C03 on the model: the transcribed algorithm equals the ISO semantics for every id
LookupAgrees == k <= N(tb) + 2 => Agrees(tb, k)
GeneratedConsistent == Consistent(tb)

Emit == k = N(tb) + 3 => PrintT("CASE " \o ToJson([file |-> out, n |-> N(tb), place |-> place]))
=============================================================================
