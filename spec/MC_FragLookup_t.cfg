SPECIFICATION Spec
CONSTANTS
  FixDefaultDur = TRUE
  FixIdZero = TRUE
  MaxTrafs = 3
  MaxCount = 1
INVARIANT LookupAgrees
CHECK_DEADLOCK FALSE
