------------------------------- MODULE Stream -------------------------------
(***************************************************************************)
(* C10, the design level: a library call is a sequence of transfer loops   *)
(* (read_exact / write_all) and seeks against an environment that may, at  *)
(* every stream call, transfer fewer bytes than requested, report an       *)
(* interrupted call, deliver end-of-file / accept zero bytes, or fail.     *)
(*                                                                         *)
(*   pc      "idle" | "loop" | "done"                                      *)
(*   plan    the loops of the call in progress: Seq of [kind, n]           *)
(*           kind in {"read", "write", "seek"}                             *)
(*   i, got  current loop and bytes transferred in it                      *)
(*   moved   the bytes that reached their destination, in order            *)
(*   src     the bytes that have to be moved by the whole call             *)
(*   result  "ok" | "ioerr" once pc = "done"                               *)
(*   faulted the environment failed a stream call during this call         *)
(* The loops are those of std's read_exact / write_all, which the library  *)
(* uses for every transfer (byteorder's read_uN/write_uN included): retry  *)
(* on Interrupted, continue after a short transfer, fail on error, on a    *)
(* zero-length write and on end-of-file.                                   *)
(***************************************************************************)
EXTENDS Naturals, Sequences, FiniteSets

CONSTANTS Plans,          \* set of plans (Seq of [kind, n]) a call may consist of
          MaxInterrupts   \* bound on interrupts per call (keeps the model finite)

VARIABLES pc, plan, i, got, moved, src, result, faulted, ints
vars == <<pc, plan, i, got, moved, src, result, faulted, ints>>

Total(p) == LET RECURSIVE S(_, _)
                S(k, acc) == IF k > Len(p) THEN acc ELSE S(k + 1, acc + (IF p[k].kind = "seek" THEN 0 ELSE p[k].n))
            IN S(1, 0)

Init == pc = "idle" /\ plan = <<>> /\ i = 0 /\ got = 0 /\ moved = <<>> /\ src = <<>> /\ result = "none"
        /\ faulted = FALSE /\ ints = 0

\* the library call starts: its source bytes are distinct so that order and completeness are visible
Begin == /\ pc = "idle"
         /\ \E p \in Plans :
              /\ plan' = p /\ src' = [k \in 1..Total(p) |-> k]
         /\ pc' = "loop" /\ i' = 1 /\ got' = 0 /\ moved' = <<>> /\ result' = "none" /\ faulted' = FALSE /\ ints' = 0

Finish(res) == pc' = "done" /\ result' = res /\ UNCHANGED <<plan, i, got, moved, src, ints>>

\* the environment transfers m bytes (1 <= m <= remaining): the loop continues or moves on
Transfer == /\ pc = "loop" /\ i <= Len(plan) /\ plan[i].kind # "seek"
            /\ \E m \in 1..(plan[i].n - got) :
                 /\ moved' = moved \o [k \in 1..m |-> src[Len(moved) + k]]
                 /\ IF got + m = plan[i].n THEN i' = i + 1 /\ got' = 0 ELSE i' = i /\ got' = got + m
            /\ UNCHANGED <<pc, plan, src, result, faulted, ints>>
\* a loop of zero bytes and a seek take one step
Skip == /\ pc = "loop" /\ i <= Len(plan) /\ (plan[i].kind = "seek" \/ plan[i].n = 0)
        /\ i' = i + 1 /\ got' = 0
        /\ UNCHANGED <<pc, plan, moved, src, result, faulted, ints>>
\* ErrorKind::Interrupted: the loop retries
Interrupt == /\ pc = "loop" /\ i <= Len(plan) /\ plan[i].kind # "seek" /\ ints < MaxInterrupts
             /\ ints' = ints + 1
             /\ UNCHANGED <<pc, plan, i, got, moved, src, result, faulted>>
\* the stream call fails: the library call returns the I/O error
Fault == /\ pc = "loop" /\ i <= Len(plan)
         /\ faulted' = TRUE /\ Finish("ioerr")
\* read returns 0 (end of file) / write accepts 0 bytes: UnexpectedEof / WriteZero
Zero == /\ pc = "loop" /\ i <= Len(plan) /\ plan[i].kind # "seek" /\ plan[i].n - got > 0
        /\ faulted' = TRUE /\ Finish("ioerr")
\* all loops completed
Complete == /\ pc = "loop" /\ i > Len(plan)
            /\ Finish("ok") /\ UNCHANGED faulted

Next == Begin \/ Transfer \/ Skip \/ Interrupt \/ Fault \/ Zero \/ Complete
Spec == Init /\ [][Next]_vars /\ WF_vars(Transfer \/ Skip \/ Complete)

\* (i) transparency: a completed call moved exactly the source bytes, whatever the schedule
Transparent == (pc = "done" /\ result = "ok") => moved = src
\* (ii) a failed stream call surfaces as an I/O error: never success
FaultSurfaces == (pc = "done" /\ faulted) => result = "ioerr"
NoSpuriousError == (pc = "done" /\ ~faulted) => result = "ok"
\* progress: bytes are only appended, in order
Prefix == \A k \in 1..Len(moved) : moved[k] = src[k]
\* (iii) termination when the environment stops interfering
Terminates == (pc = "loop") ~> (pc = "done")
=============================================================================
