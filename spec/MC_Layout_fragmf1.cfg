SPECIFICATION Spec
CONSTANTS
  Base = "fragmf"
  MaxOps = 1
  OpKinds = {"free", "unk", "swap", "large", "spare"}
INVARIANTS LayoutInvariant Emit
CHECK_DEADLOCK FALSE
