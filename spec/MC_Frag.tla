------------------------------ MODULE MC_Frag ------------------------------
(***************************************************************************)
(* C09, generator: the bounded space of fragmented movies -- fragment      *)
(* structures (1-3 fragments, 1-2 tracks, empty runs, a track that starts  *)
(* in a later fragment) x base-offset modes x duration modes x composition *)
(* offset modes x 32/64-bit decode times x movie-level defaults x the two  *)
(* deliveries.  Every element is rendered to bytes by the specification    *)
(* (Movie!RenderFrag) in a Render step; the real reader's answers are      *)
(* validated against Frag!FragSamples of those bytes by Trace_Read.        *)
(***************************************************************************)
EXTENDS Movie, Json

CONSTANTS Structures, TrexDurs, Bases, DurModes, CtsModes, TfdtVs, Deliveries,
          MdatFirsts,       \* {FALSE}, {TRUE} or both: media data of a fragment before its moof

          Orders,           \* subset of {"asc", "desc"}: "desc" = sequence numbers (mfhd) AND decode times (tfdt) DEcrease
                            \* from fragment to fragment -- samples are still numbered in FILE order (8.8.5, C09)
          TrexPerTrack      \* TRUE: track t gets the default duration trexDur + t (differs between tracks)

\* structures: Seq (fragments) of Seq (trafs) of <<track, count>>
S1 == << <<<<1, 2>>>> >>
S2 == << <<<<1, 2>>>>, <<<<1, 3>>>> >>
S3 == << <<<<1, 1>>>>, <<<<1, 2>>>>, <<<<1, 1>>>> >>
S4 == << <<<<1, 2>>, <<2, 1>>>> >>
S5 == << <<<<1, 1>>, <<2, 2>>>>, <<<<2, 1>>, <<1, 2>>>> >>
S6 == << <<<<1, 2>>>>, <<<<2, 2>>>> >>
S7 == << <<<<1, 0>>>>, <<<<1, 2>>>> >>
\* count -1: a track fragment without a run (tfhd + tfdt only) between fragments that have samples
St8 == << <<<<1, 1>>>>, <<<<1, -1>>>>, <<<<1, 2>>>> >>
\* two track fragments of the same track inside one moof
St9 == << <<<<1, 2>>, <<1, 1>>>>, <<<<1, 1>>>> >>
\* runs of unequal length whose total is a multiple of the number of fragments, and the same
\* samples distributed the other way round (two files with the same track and sample ids)
St10 == << <<<<1, 3>>>>, <<<<1, 1>>>> >>
St11 == << <<<<1, 1>>>>, <<<<1, 3>>>> >>
St12 == << <<<<1, 4>>>>, <<<<1, 4>>>>, <<<<1, 1>>>> >>
\* more track fragments than samples (in the whole file, and in a prefix of it)
St13 == << <<<<1, 2>>>>, <<<<1, 0>>>>, <<<<1, 0>>>>, <<<<1, 2>>>> >>
St14 == << <<<<1, 2>>>>, <<<<1, 0>>>>, <<<<1, -1>>>> >>
AllStructures == {S1, S2, S3, S4, S5, S6, S7, St8, St9, St10, St11, St12, St13, St14}
ExtraStructures == {St8, St9, St12, St13, St14}
QuickStructures == {S2, S5, S7, St10, St11}
MixStructures == {S2, S3, S5, St10, St12, St13}
TrexBoth == {<<>>, <<7>>}
TwoTrackStructures == {S4, S5, S6}

VARIABLES st, trexDur, base, durMode, ctsMode, tfdtV, delivery, mdatFirst, order, out
vars == <<st, trexDur, base, durMode, ctsMode, tfdtV, delivery, mdatFirst, order, out>>

\* duration mode of fragment i: the mixed modes change the source of the durations from one
\* fragment of a track to the next (per-sample / tfhd default / movie-level default)
ModeAt(i) == CASE durMode = "mixA" -> (IF i % 2 = 1 THEN "trex" ELSE "tfhd")
               [] durMode = "mixB" -> (IF i % 2 = 1 THEN "tfhd" ELSE "trex")
               [] durMode = "mixC" -> (IF i % 3 = 1 THEN "per" ELSE IF i % 3 = 2 THEN "trex" ELSE "tfhd")
               [] OTHER -> durMode

NTracks == IF \E i \in 1..Len(st) : \E j \in 1..Len(st[i]) : st[i][j][1] = 2 THEN 2 ELSE 1

TrafOf(i, j) ==
  LET n == IF st[i][j][2] < 0 THEN 0 ELSE st[i][j][2] IN
  [ track |-> st[i][j][1], base |-> base, noTrun |-> st[i][j][2] < 0,
    \* "tfhd0": the fragment header states a default duration of 0 (present, not missing)
    tfhdDur |-> IF ModeAt(i) = "tfhd" THEN Some(<<5>>) ELSE IF ModeAt(i) = "tfhd0" THEN Some(<<>>) ELSE None,
    tfdt |-> LET ii == IF order = "desc" THEN 9 - i ELSE i IN IF tfdtV = 1 THEN <<1, 0, 0, 0, ii>> ELSE FromInt(100 * ii + j),
    tfdtV |-> tfdtV,
    durs |-> IF ModeAt(i) = "per" THEN Some([s \in 1..n |-> FromInt(2 * s + i)]) ELSE None,
    sizes |-> [s \in 1..n |-> (i + j + s) % 3],
    cts |-> CASE ctsMode = "none" -> None
              [] ctsMode = "v0" -> Some([s \in 1..n |-> FromInt(s + 1)])
              [] ctsMode = "v1neg" -> Some([s \in 1..n |-> Sub(<<1, 0, 0, 0, 0>>, FromInt(s))]),
    trunV |-> IF ctsMode = "v1neg" THEN 1 ELSE 0 ]

TheFrag ==
  [ mts |-> <<3, 232>>,
    tracks |-> [t \in 1..NTracks |-> [kind |-> IF t = 1 THEN "avc" ELSE "aac", timescale |-> <<3, 232>>, trexDur |-> IF TrexPerTrack THEN Add(trexDur, FromInt(t)) ELSE trexDur]],
    frags |-> [i \in 1..Len(st) |-> [j \in 1..Len(st[i]) |-> TrafOf(i, j)]],
    mdatFirst |-> mdatFirst ] @@ (IF order = "desc" THEN [seq |-> [i \in 1..Len(st) |-> 20 - 3 * i]] ELSE [x \in {} |-> 0])

Init == /\ st \in Structures /\ trexDur \in TrexDurs /\ base \in Bases /\ durMode \in DurModes
        /\ ctsMode \in CtsModes /\ tfdtV \in TfdtVs /\ delivery \in Deliveries /\ mdatFirst \in MdatFirsts /\ order \in Orders
        /\ out = [done |-> FALSE]

Render == /\ ~out.done
          /\ out' = [done |-> TRUE] @@ RenderFrag(TheFrag, delivery, <<>>)
          /\ UNCHANGED <<st, trexDur, base, durMode, ctsMode, tfdtV, delivery, mdatFirst, order>>
Next == Render
Spec == Init /\ [][Next]_vars

Emit == out.done => PrintT("CASE " \o ToJson([file |-> out.file, init |-> out.init, delivery |-> delivery,
                                              base |-> base, durMode |-> durMode, ctsMode |-> ctsMode,
                                              tfdtV |-> tfdtV, nfrag |-> Len(st), ntracks |-> NTracks, mdatFirst |-> mdatFirst, st |-> st, trexDur |-> trexDur, order |-> order]))
=============================================================================
