SPECIFICATION Spec
CONSTANTS
  Structures <- TwoTrackStructures
  TrexDurs <- TrexBoth
  Bases = {"moof"}
  DurModes = {"trex"}
  CtsModes = {"none"}
  TfdtVs = {0, 1}
  Orders = {"asc"}
  TrexPerTrack = TRUE
  MdatFirsts = {FALSE}
  Deliveries = {"one", "split"}
INVARIANT Emit
CHECK_DEADLOCK FALSE
