SPECIFICATION Spec
CONSTANTS
  Structures <- TwoTrackStructures
  TrexDurs <- TrexBoth
  Bases = {"moof"}
  DurModes = {"trex"}
  CtsModes = {"none"}
  TfdtVs = {0, 1}
  TrexPerTrack = TRUE
  Deliveries = {"one", "split"}
INVARIANT Emit
CHECK_DEADLOCK FALSE
