-------------------------------- MODULE Iso --------------------------------
(***************************************************************************)
(* An independent ISO-BMFF reader, in TLA+: walks the box tree of a        *)
(* (possibly sparse, possibly > 4 GiB) file image and decodes a movie into *)
(* the abstract structure the property-level specifications talk about.    *)
(* It shares nothing with the library under test; it is the "independent   *)
(* parser" of property C02 and the decoder half of Wire for whole files.   *)
(*                                                                         *)
(* An image is [start |-> Big, len |-> Big, segs |-> Seq([off |-> Big,     *)
(* bytes |-> Seq(byte)])]: the stream region [start, len) of which only the *)
(* listed segments are materialised (media payload of huge files is not).  *)
(***************************************************************************)
EXTENDS Naturals, Integers, Sequences, FiniteSets, Wire, SampleTable

\* index of the segment that contains [off, off+n), or 0
SegOf(img, off, n) ==
  LET ok(i) == /\ Leq(img.segs[i].off, off)
               /\ Leq(Add(off, FromInt(n)), Add(img.segs[i].off, FromInt(Len(img.segs[i].bytes))))
  IN IF \E i \in 1..Len(img.segs) : ok(i)
     THEN CHOOSE i \in 1..Len(img.segs) : ok(i) ELSE 0

\* 0-based index inside segment i of absolute offset off
Rel(img, i, off) == ToInt(Sub(off, img.segs[i].off))

\* the n bytes at absolute offset off (requires SegOf # 0)
Win(img, off, n) == LET i == SegOf(img, off, n) IN raw(img.segs[i].bytes, Rel(img, i, off), n)

-----------------------------------------------------------------------------
(* top level: boxes from img.start to img.len, with Big offsets and sizes. *)
(* Result [ok, why, boxes : Seq([t, off, h, size])]                        *)
RECURSIVE TopR(_, _, _, _)
TopR(img, o, acc, fuel) ==
  IF o = img.len THEN [ok |-> TRUE, why |-> "", boxes |-> acc]
  ELSE IF fuel = 0 THEN [ok |-> FALSE, why |-> "too many top-level boxes", boxes |-> acc]
  ELSE IF Lt(img.len, Add(o, FromInt(8))) THEN [ok |-> FALSE, why |-> "truncated top-level header", boxes |-> acc]
  ELSE IF SegOf(img, o, 8) = 0 THEN [ok |-> FALSE, why |-> "top-level header outside logged segments", boxes |-> acc]
  ELSE LET w  == Win(img, o, 8)
           sz4 == NatAt(w, 1, 4)
           t  == Slice(w, 5, 4)
       IN IF sz4 = <<1>> THEN
             IF SegOf(img, o, 16) = 0 THEN [ok |-> FALSE, why |-> "largesize outside logged segments", boxes |-> acc]
             ELSE LET sz8 == NatAt(Win(img, o, 16), 9, 8) IN
                  IF Lt(sz8, FromInt(16)) \/ Lt(img.len, Add(o, sz8))
                  THEN [ok |-> FALSE, why |-> "bad largesize", boxes |-> acc]
                  ELSE TopR(img, Add(o, sz8), Append(acc, [t |-> t, off |-> o, h |-> 16, size |-> sz8]), fuel - 1)
          ELSE IF sz4 = <<>> THEN   \* size 0: to the end of the file
             [ok |-> TRUE, why |-> "", boxes |-> Append(acc, [t |-> t, off |-> o, h |-> 8, size |-> Sub(img.len, o)])]
          ELSE IF Lt(sz4, FromInt(8)) \/ Lt(img.len, Add(o, sz4))
             THEN [ok |-> FALSE, why |-> "bad top-level size", boxes |-> acc]
          ELSE TopR(img, Add(o, sz4), Append(acc, [t |-> t, off |-> o, h |-> 8, size |-> sz4]), fuel - 1)
Top(img) == TopR(img, img.start, <<>>, 64)

-----------------------------------------------------------------------------
(* container structure inside one materialised byte sequence               *)
PrefixOf(t) ==
  CASE t \in {MOOV, TRAK, MDIA, MINF, DINF, STBL, EDTS, UDTA, MVEX, MOOF, TRAF} -> 0
    [] t \in {DREF, STSD} -> 8
    [] t \in {AVC1, HEV1, VP09} -> 78
    [] t = MP4A -> 28
    [] OTHER -> -1                        \* leaf (or not interpreted)

\* every container below k (inclusive) is exactly tiled by its children
RECURSIVE TreeOK(_, _)
TreeOK(b, k) ==
  LET p == PrefixOf(k.t) IN
  IF p < 0 THEN TRUE
  ELSE /\ k.s - k.h >= p
       /\ LET ks == Kids(b, PayloadLo(k) + p, PayloadHi(k)) IN
          ks.ok /\ \A i \in 1..Len(ks.kids) : TreeOK(b, ks.kids[i])

-----------------------------------------------------------------------------
(* one trak -> abstract track.  [ok, why, ...]                             *)
SmallBig(x) == IsSmall(x)

TblOf(stts, ctts, stss, stsc, stsz, co) ==
  [ stsz |-> [ size  |-> ToInt(stsz.sample_size), count |-> ToInt(stsz.sample_count),
               sizes |-> [i \in 1..Len(stsz.sample_sizes) |-> ToInt(stsz.sample_sizes[i])] ],
    stts |-> [i \in 1..Len(stts.entries) |->
                [count |-> ToInt(stts.entries[i].sample_count), delta |-> stts.entries[i].sample_delta]],
    ctts |-> IF ctts.some
             THEN [some |-> TRUE, entries |-> [i \in 1..Len(ctts.v.entries) |->
                     [count |-> ToInt(ctts.v.entries[i].sample_count), offset |-> ctts.v.entries[i].sample_offset]]]
             ELSE [some |-> FALSE, entries |-> <<>>],
    stss |-> IF stss.some
             THEN [some |-> TRUE, entries |-> [i \in 1..Len(stss.v.entries) |-> ToInt(stss.v.entries[i])]]
             ELSE [some |-> FALSE, entries |-> <<>>],
    stsc |-> [i \in 1..Len(stsc.entries) |->
                [first |-> ToInt(stsc.entries[i].first_chunk), spc |-> ToInt(stsc.entries[i].samples_per_chunk),
                 sdi |-> ToInt(stsc.entries[i].sample_description_index)]],
    co   |-> co ]

\* all the count-like fields are small enough to be TLC integers
TblSmall(stts, ctts, stss, stsc, stsz) ==
  /\ SmallBig(stsz.sample_size) /\ SmallBig(stsz.sample_count)
  /\ \A i \in 1..Len(stsz.sample_sizes) : SmallBig(stsz.sample_sizes[i])
  /\ \A i \in 1..Len(stts.entries) : SmallBig(stts.entries[i].sample_count)
  /\ (ctts.some => \A i \in 1..Len(ctts.v.entries) : SmallBig(ctts.v.entries[i].sample_count))
  /\ (stss.some => \A i \in 1..Len(stss.v.entries) : SmallBig(stss.v.entries[i]))
  /\ \A i \in 1..Len(stsc.entries) :
        SmallBig(stsc.entries[i].first_chunk) /\ SmallBig(stsc.entries[i].samples_per_chunk)
        /\ SmallBig(stsc.entries[i].sample_description_index)

Bad(why) == [ok |-> FALSE, why |-> why]

OptKid(b, ks, t, can(_, _), dec(_, _)) ==
  IF HasKid(ks, t) THEN Some(dec(b, Kid(ks, t))) ELSE None

DecodeTrak(b, k) ==
  LET ks == Kids(b, PayloadLo(k), PayloadHi(k)).kids IN
  IF ~HasKid(ks, TKHD) \/ ~HasKid(ks, MDIA) THEN Bad("trak lacks tkhd/mdia")
  ELSE IF ~CanTkhd(b, Kid(ks, TKHD)) THEN Bad("tkhd malformed")
  ELSE
  LET mk == Kids(b, PayloadLo(Kid(ks, MDIA)), PayloadHi(Kid(ks, MDIA))).kids IN
  IF ~HasKid(mk, MDHD) \/ ~HasKid(mk, HDLR) \/ ~HasKid(mk, MINF) THEN Bad("mdia lacks mdhd/hdlr/minf")
  ELSE IF ~CanMdhd(b, Kid(mk, MDHD)) \/ ~CanHdlr(b, Kid(mk, HDLR)) THEN Bad("mdhd/hdlr malformed")
  ELSE
  LET ik == Kids(b, PayloadLo(Kid(mk, MINF)), PayloadHi(Kid(mk, MINF))).kids IN
  IF ~HasKid(ik, STBL) THEN Bad("minf lacks stbl")
  ELSE
  LET sk == Kids(b, PayloadLo(Kid(ik, STBL)), PayloadHi(Kid(ik, STBL))).kids IN
  IF ~HasKid(sk, STSD) \/ ~HasKid(sk, STTS) \/ ~HasKid(sk, STSC) \/ ~HasKid(sk, STSZ)
     \/ ~(HasKid(sk, STCO) \/ HasKid(sk, CO64))
  THEN Bad("stbl lacks a mandatory table")
  ELSE IF ~CanStts(b, Kid(sk, STTS)) \/ ~CanStsc(b, Kid(sk, STSC)) \/ ~CanStsz(b, Kid(sk, STSZ))
          \/ (HasKid(sk, CTTS) /\ ~CanCtts(b, Kid(sk, CTTS)))
          \/ (HasKid(sk, STSS) /\ ~CanStss(b, Kid(sk, STSS)))
          \/ (HasKid(sk, STCO) /\ ~CanStco(b, Kid(sk, STCO)))
          \/ (~HasKid(sk, STCO) /\ ~CanCo64(b, Kid(sk, CO64)))
  THEN Bad("a sample table is malformed (entry count exceeds box)")
  ELSE
  LET stts == DecStts(b, Kid(sk, STTS))
      stsc == DecStsc(b, Kid(sk, STSC))
      stsz == DecStsz(b, Kid(sk, STSZ))
      ctts == IF HasKid(sk, CTTS) THEN Some(DecCtts(b, Kid(sk, CTTS))) ELSE None
      stss == IF HasKid(sk, STSS) THEN Some(DecStss(b, Kid(sk, STSS))) ELSE None
      co   == IF HasKid(sk, STCO)
              THEN [kind |-> "stco", entries |-> DecStco(b, Kid(sk, STCO)).entries]
              ELSE [kind |-> "co64", entries |-> DecCo64(b, Kid(sk, CO64)).entries]
  IN IF ~TblSmall(stts, ctts, stss, stsc, stsz) THEN Bad("a table count does not fit 31 bits")
     ELSE [ ok   |-> TRUE, why |-> "",
            tkhd |-> DecTkhd(b, Kid(ks, TKHD)),
            mdhd |-> DecMdhd(b, Kid(mk, MDHD)),
            hdlr |-> DecHdlr(b, Kid(mk, HDLR)),
            stsdk |-> Kid(sk, STSD),              \* located, decoded on demand (module Codec)
            nstco |-> Len(SelectKids(sk, STCO)) + Len(SelectKids(sk, CO64)),
            tbl  |-> TblOf(stts, ctts, stss, stsc, stsz, co) ]

-----------------------------------------------------------------------------
(* whole movie:  [ok, why, top, ftyp, mdats, moovOff, mvhd, traks, mb, mk] *)
DecodeMovie(img) ==
  LET top == Top(img) IN
  IF ~top.ok THEN Bad(top.why)
  ELSE
  LET bs    == top.boxes
      moovs == SelectSeq(bs, LAMBDA x : x.t = MOOV)
      ftyps == SelectSeq(bs, LAMBDA x : x.t = FTYP)
  IN
  IF Len(moovs) # 1 THEN Bad("not exactly one moov")
  ELSE IF Len(ftyps) # 1 \/ bs[1].t # FTYP THEN Bad("ftyp missing or not first")
  ELSE IF ~IsSmall(moovs[1].size) \/ ~IsSmall(ftyps[1].size) THEN Bad("moov/ftyp too large")
  ELSE
  LET mv == moovs[1]  msz == ToInt(mv.size)  fsz == ToInt(ftyps[1].size) IN
  IF SegOf(img, mv.off, msz) = 0 \/ SegOf(img, ftyps[1].off, fsz) = 0
  THEN Bad("moov/ftyp outside logged segments")
  ELSE
  LET si == SegOf(img, mv.off, msz)
      mb == img.segs[si].bytes
      ro == Rel(img, si, mv.off)
      mk == [ok |-> TRUE, t |-> MOOV, o |-> ro, h |-> mv.h, s |-> msz]
      fi == SegOf(img, ftyps[1].off, fsz)
      fk == [ok |-> TRUE, t |-> FTYP, o |-> Rel(img, fi, ftyps[1].off), h |-> ftyps[1].h, s |-> fsz]
      fb == img.segs[fi].bytes
  IN
  IF ~TreeOK(mb, mk) THEN Bad("a container is not exactly tiled by its children")
  ELSE IF ~CanFtyp(fb, fk) THEN Bad("ftyp malformed")
  ELSE
  LET ks == Kids(mb, PayloadLo(mk), PayloadHi(mk)).kids IN
  IF Len(SelectKids(ks, MVHD)) # 1 \/ ~CanMvhd(mb, Kid(ks, MVHD)) THEN Bad("mvhd missing or malformed")
  ELSE
  LET tk    == SelectKids(ks, TRAK)
      traks == [i \in 1..Len(tk) |-> DecodeTrak(mb, tk[i])]
  IN IF \E i \in 1..Len(traks) : ~traks[i].ok
     THEN Bad(traks[CHOOSE i \in 1..Len(traks) : ~traks[i].ok].why)
     ELSE [ ok |-> TRUE, why |-> "", top |-> bs,
            ftyp |-> DecFtyp(fb, fk),
            mdats |-> SelectSeq(bs, LAMBDA x : x.t = MDAT),
            mvhd |-> DecMvhd(mb, Kid(ks, MVHD)),
            traks |-> traks, mb |-> mb, mk |-> mk ]
-----------------------------------------------------------------------------
(* Field map of a (small, fully materialised) image: the positions of the length / count /
   version / offset words that steer the parser -- every box size field (and 64-bit size), and
   the first ten words of every leaf payload (version+flags, entry counts, sample counts, sizes, the first table entries).
   Used to generate structure-aware adversarial inputs (C06-C08): <<offset, width>> pairs. *)
\* <<offset, width, role, box, group>>: role 0 = a box size field, 1 = the first payload word of a leaf
\* (version + flags of a full box), 2 = another payload word, 3 = a 64-bit window; box = offset of the
\* box the field belongs to (fields of one box are mutated together); group = offset of the enclosing
\* sample table box / track fragment box, else of the box itself (tables that refer to each other)
RECURSIVE NodeFields(_, _, _)
NodeFields(b, k, g0) ==
  LET g == IF g0 >= 0 THEN g0 ELSE IF k.t \in {STBL, TRAF} THEN k.o ELSE -1
      gg == IF g >= 0 THEN g ELSE k.o
      own == {<<k.o, 4, 0, k.o, gg>>} \cup (IF k.h = 16 THEN {<<k.o + 8, 8, 0, k.o, gg>>} ELSE {})
      p == PrefixOf(k.t) IN
  IF p >= 0 /\ k.s - k.h >= p
  THEN LET ks == Kids(b, PayloadLo(k) + p, PayloadHi(k)) IN
       own \cup {<<PayloadLo(k) + 4 * w, 4, 2, k.o, gg>> : w \in 0..((IF p > 8 THEN 8 ELSE p) \div 4 - 1)}
           \cup UNION {NodeFields(b, ks.kids[i], g) : i \in 1..Len(ks.kids)}
  ELSE own \cup {<<PayloadLo(k) + 4 * w, 4, IF w = 0 THEN 1 ELSE 2, k.o, gg>> : w \in 0..((IF k.s - k.h > 40 THEN 40 ELSE k.s - k.h) \div 4 - 1)}
           \* 64-bit quantities (co64 entries, version-1 times, base data offsets) at every word position
           \cup {<<PayloadLo(k) + 4 * w, 8, 3, k.o, gg>> : w \in 0..((IF k.s - k.h > 40 THEN 40 ELSE k.s - k.h) \div 4 - 2)}
FieldMapOf(bytes) ==
  LET ks == Kids(bytes, 0, Len(bytes)) IN
  UNION {IF ks.kids[i].t = MDAT THEN {<<ks.kids[i].o, 4, 0, ks.kids[i].o, ks.kids[i].o>>} ELSE NodeFields(bytes, ks.kids[i], -1) : i \in 1..Len(ks.kids)}
=============================================================================
