SPECIFICATION Spec
INVARIANTS LookupAgrees GeneratedConsistent Emit
CHECK_DEADLOCK FALSE
