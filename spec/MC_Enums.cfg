SPECIFICATION Spec
INVARIANTS Theorems Emit
CHECK_DEADLOCK FALSE
