SPECIFICATION Spec
CONSTANTS
  N = 40
  Sizes = {0, 1, 7, 8, 9, 16, 39, 40, 41, 100}
  GuardSmall = TRUE
  GuardLarge = TRUE
INVARIANTS Linear AllocBounded
PROPERTIES Progress Terminates
CHECK_DEADLOCK FALSE
