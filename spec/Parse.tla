-------------------------------- MODULE Parse --------------------------------
(***************************************************************************)
(* C07 (and the allocation clause of C08), design level: the container     *)
(* parsing loop of the reader as a step machine over an abstract input.    *)
(*                                                                         *)
(* An input of n bytes is abstracted to the sequence of child headers a    *)
(* loop can meet: at position pos the (untrusted) header declares a size   *)
(* from Sizes.  One iteration of `while current < end` (moov.rs, trak.rs,  *)
(* mdia.rs, minf.rs, stbl.rs, dinf.rs, udta.rs, meta.rs, ilst.rs, moof.rs, *)
(* traf.rs, mvex.rs, and the search loops of avc1.rs / mp4a.rs):           *)
(*     ReadHeader   8 bytes at pos (fails at end of input)                 *)
(*     Guard        s > size of the parent, or s < 8  => error             *)
(*     Child        parse / skip the child, then seek to start + s         *)
(* The constant GuardSmall switches the `s < 8` half of the guard off,     *)
(* which is the pinned tree before fix 2b6684d: TLC then finds the         *)
(* non-progress cycle (a child of size 0 seeks back onto its own header).  *)
(* Alloc models `vec![0; s - 8]`-style buffers sized by a header field:    *)
(* with the guard, every request is bounded by the parent and hence by n.  *)
(***************************************************************************)
EXTENDS Naturals, Sequences, FiniteSets

CONSTANTS N,            \* length of the input
          Sizes,        \* sizes a child header may declare
          GuardSmall,   \* TRUE: children smaller than a header are rejected
          GuardLarge    \* TRUE: children larger than the parent are rejected

VARIABLES pos, status, ops, maxAlloc
vars == <<pos, status, ops, maxAlloc>>

Init == pos = 0 /\ status = "run" /\ ops = 0 /\ maxAlloc = 0

\* one loop iteration with a declared child size s
Iterate(s) ==
  /\ status = "run" /\ pos < N
  /\ IF pos + 8 > N THEN status' = "err" /\ ops' = ops + 1 /\ UNCHANGED <<pos, maxAlloc>>      \* header does not fit
     ELSE IF (GuardLarge /\ s > N) \/ (GuardSmall /\ s < 8)
     THEN status' = "err" /\ ops' = ops + 1 /\ UNCHANGED <<pos, maxAlloc>>
     ELSE /\ ops' = ops + 3                                   \* header read, child, seek to start + s
          /\ maxAlloc' = IF s > 8 /\ s - 8 > maxAlloc THEN s - 8 ELSE maxAlloc
          /\ pos' = pos + s                                   \* start + s: NOT necessarily > pos
          /\ status' = "run"

Done == /\ status = "run" /\ pos >= N
        /\ status' = "ok" /\ UNCHANGED <<pos, ops, maxAlloc>>

Next == (\E s \in Sizes : Iterate(s)) \/ Done
Spec == Init /\ [][Next]_vars /\ WF_vars(Next)

\* every iteration consumes input or stops
Progress == [][(status = "run" /\ status' = "run") => pos' > pos]_vars
\* work is linear in the input length
Linear == ops <= 3 * N + 3
\* no allocation larger than the input
AllocBounded == maxAlloc <= N
\* parsing terminates
Terminates == <>(status # "run")
\* keeps the model finite when the guards are off
Bounded == ops <= 3 * N + 12 /\ pos <= 3 * N
=============================================================================
