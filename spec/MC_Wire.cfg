SPECIFICATION Spec
INVARIANTS RoundTrip SizeExact VariantsAgree Emit
CHECK_DEADLOCK FALSE
