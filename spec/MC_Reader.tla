----------------------------- MODULE MC_Reader -----------------------------
(***************************************************************************)
(* C15, schedules: every sequence of reader calls up to MaxLen over an     *)
(* alphabet of (call kind, track, sample id) -- including calls that fail  *)
(* (track 0 / unknown track, id 0, id past the end).  The reader session   *)
(* of Reader.tla has no state besides the immutable file, so every result  *)
(* must be the function of (file, arguments) whatever came before: each    *)
(* enumerated schedule is executed on ONE real reader and every event is   *)
(* validated by Trace_Read.  Sample ids are symbolic here ("n" = the       *)
(* track's sample count) and resolved per file by the driver.              *)
(***************************************************************************)
EXTENDS Naturals, Sequences, TLC, Json

CONSTANTS Kinds, Tracks, Ids, MaxLen
VARIABLE sched
Alphabet == {[op |-> o, t |-> t, k |-> k] : o \in Kinds \ {"count"}, t \in Tracks, k \in Ids}
            \cup {[op |-> "count", t |-> t, k |-> "0"] : t \in Tracks}
Init == sched = <<>>
Call == /\ Len(sched) < MaxLen
        /\ \E c \in Alphabet : sched' = Append(sched, c)
Next == Call
Spec == Init /\ [][Next]_sched
Emit == Len(sched) = MaxLen => PrintT("CASE " \o ToJson([calls |-> sched]))
=============================================================================
