SPECIFICATION TSpec
POSTCONDITION Accepted
CHECK_DEADLOCK FALSE
