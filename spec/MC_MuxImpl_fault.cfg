SPECIFICATION ISpec
CONSTANTS
  WB = 1
  MovieTs <- Three
  StartPos <- Zero
  FtypLen = 4
  Confs <- Confs2
  Alphabet <- AlphaSmall
  MaxSamples = 3
  MaxRejects = 0
  FixEmptyChunk = TRUE
  FixStss = TRUE
  FixTkhd = TRUE
  FixFlushOrder = TRUE
  MaxFaults = 2
INVARIANTS NoPanic OutputWellFormed OutputDecodes EmitCase
CHECK_DEADLOCK FALSE
