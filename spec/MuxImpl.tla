------------------------------ MODULE MuxImpl ------------------------------
(***************************************************************************)
(* Implementation-shaped model of the muxer (writer.rs, Mp4TrackWriter in  *)
(* track.rs): the sample tables under construction, the chunk buffer, the  *)
(* running durations, the stream position and the media-data patch -- one  *)
(* action per public call, composed of named steps that follow the code's  *)
(* functions (UpdateSampleSizes, UpdateSampleTimes, UpdateRenderingOffsets,*)
(* UpdateSyncSamples, IsChunkFull, WriteChunk + UpdateSampleToChunk,       *)
(* UpdateDurations, TrackEnd, UpdateMdatSize, WriteMoov).                  *)
(*                                                                         *)
(* It is checked against the property-level Mux: the file the model        *)
(* produces (FileOf, with every stored value truncated to the width of the *)
(* field that stores it) must satisfy Mux!WellFormed and Mux!Decodes for   *)
(* every history within the bounds.  Widths are scaled: a "32-bit" field   *)
(* has WB bytes (WB = 1 in the exhaustive configurations, so the 32->64    *)
(* bit transitions of C13 happen at 256 instead of 2^32; WB = 4 is the     *)
(* real format).                                                           *)
(*                                                                         *)
(* The constants FixXxx switch the repaired defects of the pinned tree back  *)
(* on, to show that TLC finds them (configurations MC_MuxImpl_defectN).     *)
(***************************************************************************)
EXTENDS Mux, TLC, Json

CONSTANTS WB,            \* bytes of a "32-bit" field
          MovieTs,       \* movie timescale (Big)
          StartPos,      \* stream position at write_start (Big)
          FtypLen,       \* length of the ftyp box (int)
          Confs,         \* Seq of track configurations that AddTrack may add, in this order
          Alphabet,      \* set of sample shapes [len, dur, cts, sync] (dur a Big)
          MaxSamples,    \* bound on accepted write_sample calls
          MaxRejects,    \* bound on rejected calls
          MaxFaults,     \* bound on write_sample calls during which the stream fails
          FixEmptyChunk, FixStss, FixTkhd, FixFlushOrder   \* TRUE = behaviour of the repaired tree

VARIABLES tw,      \* Seq of track-writer records
          pos,     \* stream position (Big)
          lay,     \* set of [off, len, id]: where each sample's bytes went
          calls,   \* history of public calls (for replay against the real code)
          rejects, \* number of rejected calls so far
          faults   \* number of calls during which the stream failed (environment)
ivars == <<phase, cfg, tracks, file, tw, pos, lay, calls, rejects, faults>>

U32Max == Sub([i \in 1..(WB + 1) |-> IF i = 1 THEN 1 ELSE 0], <<1>>)     \* 256^WB - 1
FitsU32(a) == Len(a) <= WB

\* the low w bytes of a (what a w-byte field keeps of it)
Trunc(a, w) == IF Len(a) <= w THEN a ELSE Norm([i \in 1..w |-> a[Len(a) - w + i]])

SatAdd32(a, b) == LET s == Add(a, b) IN IF FitsU32(s) THEN s ELSE U32Max

NewTrack(id, conf) ==
  [ id |-> id, conf |-> conf,
    stszSize |-> 0, stszCount |-> 0, stszSizes |-> <<>>, fixed |-> FALSE, fixedSize |-> 0,
    stts |-> <<>>, ctts |-> [some |-> FALSE, entries |-> <<>>], stss |-> [some |-> FALSE, entries |-> <<>>],
    stsc |-> <<>>, co |-> <<>>, sampleId |-> 1,
    chunkSamples |-> 0, chunkDur |-> <<>>, chunkIds |-> <<>>, chunkLens |-> <<>>,
    mdhdDur |-> <<>>, mdhdVer |-> 0, tkhdDur |-> <<>>, tkhdVer |-> 0,
    panicked |-> FALSE ]     \* an unsigned subtraction went below zero (update_sample_to_chunk)

-----------------------------------------------------------------------------
(* steps of Mp4TrackWriter::write_sample, as functions on the track record *)

\* update_sample_sizes (track.rs): first sample / constant -> per-sample switch / append
UpdateSampleSizes(t, size) ==
  IF t.stszCount = 0 THEN
     IF size = 0 THEN [t EXCEPT !.stszSize = 0, !.fixed = FALSE, !.stszSizes = <<0>>, !.stszCount = 1]
     ELSE [t EXCEPT !.stszSize = size, !.fixedSize = size, !.fixed = TRUE, !.stszCount = 1]
  ELSE IF t.fixed THEN
     IF t.fixedSize # size THEN
        [t EXCEPT !.fixed = FALSE, !.stszSize = 0,
                  !.stszSizes = (IF t.stszSize > 0 THEN [i \in 1..t.stszCount |-> t.fixedSize] ELSE t.stszSizes) \o <<size>>,
                  !.stszCount = @ + 1]
     ELSE [t EXCEPT !.stszCount = @ + 1]
  ELSE [t EXCEPT !.stszSizes = Append(@, size), !.stszCount = @ + 1]

\* update_sample_times: extend the last stts run or open a new one
UpdateSampleTimes(t, dur) ==
  IF Len(t.stts) > 0 /\ t.stts[Len(t.stts)].delta = dur
  THEN [t EXCEPT !.stts[Len(t.stts)].count = @ + 1]
  ELSE [t EXCEPT !.stts = Append(@, [count |-> 1, delta |-> dur])]

\* update_rendering_offsets: ctts is created lazily, back-filled with a zero run
UpdateRenderingOffsets(t, off) ==
  IF ~t.ctts.some /\ off = 0 THEN t
  ELSE LET es0 == IF t.ctts.some THEN t.ctts.entries
                  ELSE IF t.sampleId > 1 THEN <<[count |-> t.sampleId - 1, offset |-> 0]>> ELSE <<>>
           es1 == IF Len(es0) > 0 /\ es0[Len(es0)].offset = off
                  THEN [es0 EXCEPT ![Len(es0)].count = @ + 1]
                  ELSE Append(es0, [count |-> 1, offset |-> off])
       IN [t EXCEPT !.ctts = [some |-> TRUE, entries |-> es1]]

\* update_sync_samples: stss is created by the first sync sample
UpdateSyncSamples(t, sync) ==
  IF ~sync THEN t
  ELSE [t EXCEPT !.stss = [some |-> TRUE, entries |-> Append(t.stss.entries, t.sampleId)]]

\* is_chunk_full: one second of media (duration_per_chunk = timescale)
IsChunkFull(t) == Leq(t.conf.timescale, t.chunkDur)

\* write_chunk + update_sample_to_chunk + update_chunk_offsets at stream position p.
\* Returns [t, pos, lay].  update_sample_to_chunk computes the (unwritten) first_sample of a new run as
\* sample_id - chunk_samples (+ 1) in unsigned arithmetic: it panics when sample_id < chunk_samples.
SkipsFlush(t) == IF FixEmptyChunk THEN t.chunkSamples = 0 ELSE IntSum(t.chunkLens) = 0
WriteChunk(t, p, l) ==
  LET total == IntSum(t.chunkLens)
      skip  == SkipsFlush(t) IN
  IF skip THEN [t |-> t, pos |-> p, lay |-> l]
  ELSE LET chunkId == Len(t.co) + 1
           sameRun == Len(t.stsc) > 0 /\ t.stsc[Len(t.stsc)].spc = t.chunkSamples
           stsc1 == IF sameRun THEN t.stsc
                    ELSE Append(t.stsc, [first |-> chunkId, spc |-> t.chunkSamples, sdi |-> 1])
           \* offsets of the buffered samples inside the chunk
           offs == [i \in 1..Len(t.chunkLens) |->
                      Add(p, FromInt(IntSum([j \in 1..(i - 1) |-> t.chunkLens[j]])))]
           newLay == { [off |-> offs[i], len |-> t.chunkLens[i], id |-> t.chunkIds[i]] : i \in 1..Len(t.chunkLens) }
       IN [ t |-> [t EXCEPT !.stsc = stsc1, !.co = Append(@, p), !.chunkSamples = 0, !.chunkDur = <<>>,
                            !.chunkIds = <<>>, !.chunkLens = <<>>,
                            !.panicked = @ \/ (~sameRun /\ t.sampleId < t.chunkSamples)],
            pos |-> Add(p, FromInt(total)),
            lay |-> l \cup newLay ]

\* update_durations: media duration, version switch; track duration in movie ticks
UpdateDurations(t, dur) ==
  LET md == Add(t.mdhdDur, dur)
      td == IF FixTkhd
            THEN (IF t.conf.timescale = <<>> THEN <<>> ELSE BigDiv(Mul(md, MovieTs), t.conf.timescale))
            ELSE Add(t.tkhdDur, BigDiv(Mul(dur, MovieTs), t.conf.timescale))
  IN [t EXCEPT !.mdhdDur = md, !.mdhdVer = IF FitsU32(md) THEN @ ELSE 1,
               !.tkhdDur = td, !.tkhdVer = IF FitsU32(td) THEN @ ELSE 1]

-----------------------------------------------------------------------------
IInit == /\ MInit /\ tw = <<>> /\ pos = StartPos /\ lay = {} /\ calls = <<>> /\ rejects = 0 /\ faults = 0

\* write_start: ftyp, then 8 bytes mdat header + 8 bytes "wide" placeholder
IStart == /\ phase = "init"
          /\ Start([timescale |-> MovieTs])
          /\ pos' = Add(StartPos, FromInt(FtypLen + 16))
          /\ UNCHANGED <<tw, lay, calls, rejects, faults>>

IAddTrack == /\ phase = "open" /\ Len(tw) < Len(Confs) /\ Len(calls) = Len(tw)   \* tracks are added first
             /\ LET conf == Confs[Len(tw) + 1] IN
                /\ AddTrack(conf)
                /\ tw' = Append(tw, NewTrack(Len(tw) + 1, conf))
                /\ calls' = Append(calls, [op |-> "add", conf |-> conf])
             /\ UNCHANGED <<pos, lay, rejects, faults>>

NumWrites == Len(SelectSeq(calls, LAMBDA c : c.op = "write" /\ c.valid))

\* the steps of write_sample up to the flush decision.  The repaired tree accounts for the sample
\* (durations, sample_id) BEFORE the flush, the pinned tree after it.
Recorded(t0, id, a) ==
  LET t1 == [t0 EXCEPT !.chunkIds = Append(@, id), !.chunkLens = Append(@, a.len),
                       !.chunkSamples = @ + 1, !.chunkDur = SatAdd32(@, a.dur)]
      t2 == UpdateSampleSizes(t1, a.len)
      t3 == UpdateSampleTimes(t2, a.dur)
      t4 == UpdateRenderingOffsets(t3, a.cts)
  IN UpdateSyncSamples(t4, a.sync)
Accounted(t, a) == [UpdateDurations(t, a.dur) EXCEPT !.sampleId = @ + 1]

IWriteSample ==
  /\ phase = "open" /\ Len(tw) = Len(Confs) /\ NumWrites < MaxSamples
  /\ \E t \in 1..Len(tw), a \in Alphabet :
       LET k  == Len(tracks[t].samples) + 1
           s  == [len |-> a.len, h |-> <<>>, b |-> <<t, k>>, dur |-> a.dur, cts |-> a.cts, sync |-> a.sync]
           t5 == Recorded(tw[t], <<t, k>>, a)
           t6 == IF FixFlushOrder THEN Accounted(t5, a) ELSE t5
           w  == IF IsChunkFull(t6) THEN WriteChunk(t6, pos, lay) ELSE [t |-> t6, pos |-> pos, lay |-> lay]
           t7 == IF FixFlushOrder THEN w.t ELSE Accounted(w.t, a)
       IN /\ WriteSample(t, s)
          /\ tw' = [tw EXCEPT ![t] = t7]
          /\ pos' = w.pos /\ lay' = w.lay
          /\ calls' = Append(calls, [op |-> "write", t |-> t, len |-> a.len, dur |-> a.dur, cts |-> a.cts,
                                     sync |-> a.sync, valid |-> TRUE])
  /\ UNCHANGED <<rejects, faults>>

\* write_sample during which the stream fails (environment): the flush is attempted and
\* stream_position() ("seek") or write_all() ("write", after w bytes) returns an error, which the
\* call returns.  The track writer keeps what it had recorded up to that point.  What C01/C02/C14
\* say about the output assumes that every call succeeded; after a fault only C17 (no panic) and
\* C10 (the error is reported) remain, so the property-level state is left alone.
IWriteSampleFault ==
  /\ phase = "open" /\ Len(tw) = Len(Confs) /\ NumWrites < MaxSamples /\ faults < MaxFaults
  /\ \E t \in 1..Len(tw), a \in Alphabet :
       LET k  == Len(tracks[t].samples) + 1 + faults
           t5 == Recorded(tw[t], <<t, k>>, a)
           t6 == IF FixFlushOrder THEN Accounted(t5, a) ELSE t5
           total == IntSum(t6.chunkLens)
       IN /\ IsChunkFull(t6) /\ ~SkipsFlush(t6)
          /\ \E kind \in {"seek", "write"} :
             \E wr \in (IF kind = "write" /\ total >= 1 THEN {0, total - 1} ELSE {0}) :
               /\ tw' = [tw EXCEPT ![t] = t6]
               /\ pos' = Add(pos, FromInt(wr))
               /\ calls' = Append(calls, [op |-> "write", t |-> t, len |-> a.len, dur |-> a.dur, cts |-> a.cts,
                                          sync |-> a.sync, valid |-> TRUE, fault |-> kind, written |-> wr])
  /\ faults' = faults + 1
  /\ UNCHANGED <<phase, cfg, tracks, file, lay, rejects>>

\* write_sample with a track id that does not exist: an error, nothing changes
IRejectWrite ==
  /\ phase = "open" /\ Len(tw) = Len(Confs) /\ rejects < MaxRejects
  /\ \E t \in {0, Len(tw) + 1} :
       /\ RejectWrite
       /\ calls' = Append(calls, [op |-> "write", t |-> t, len |-> 1, dur |-> <<1>>, cts |-> 0, sync |-> TRUE, valid |-> FALSE])
  /\ rejects' = rejects + 1
  /\ UNCHANGED <<tw, pos, lay, faults>>

-----------------------------------------------------------------------------
(* write_end: per track final flush (TrackEnd), media-data size patch, moov *)
RECURSIVE EndTracksR(_, _, _, _)
EndTracksR(ts, i, p, l) ==
  IF i > Len(ts) THEN [ts |-> ts, pos |-> p, lay |-> l]
  ELSE LET w  == WriteChunk(ts[i], p, l)
           t1 == IF FixStss /\ ~w.t.stss.some /\ w.t.stszCount > 0
                 THEN [w.t EXCEPT !.stss = [some |-> TRUE, entries |-> <<>>]] ELSE w.t
       IN EndTracksR([ts EXCEPT ![i] = t1], i + 1, w.pos, w.lay)

\* the abstract file as a reader of the produced bytes would decode it
TblOfTrack(t) ==
  LET stco == \A i \in 1..Len(t.co) : FitsU32(t.co[i]) IN        \* StcoBox::try_from(co64)
  [ stsz |-> [size |-> t.stszSize, count |-> t.stszCount, sizes |-> t.stszSizes],
    stts |-> t.stts, ctts |-> t.ctts, stss |-> t.stss, stsc |-> t.stsc,
    co   |-> [kind |-> IF stco THEN "stco" ELSE "co64",
              entries |-> [i \in 1..Len(t.co) |-> Trunc(t.co[i], IF stco THEN WB ELSE 2 * WB)]] ]

FileOf(ts, endPos) ==
  LET mdatPos  == Add(StartPos, FromInt(FtypLen))
      mdatSize == Sub(endPos, mdatPos)
      large    == ~FitsU32(mdatSize)                          \* update_mdat_size
      movieDur == LET RECURSIVE M(_, _)
                      M(i, acc) == IF i > Len(ts) THEN acc ELSE M(i + 1, BMax(acc, ts[i].tkhdDur))
                  IN M(1, <<>>)
  IN [ ok |-> TRUE, why |-> "",
       mdats |-> << [off |-> mdatPos, h |-> IF large THEN 16 ELSE 8,
                     size |-> IF large THEN Trunc(mdatSize, 2 * WB) ELSE mdatSize] >>,
       mvhd |-> [timescale |-> MovieTs,
                 duration |-> Trunc(movieDur, IF FitsU32(movieDur) THEN WB ELSE 2 * WB)],
       traks |-> [i \in 1..Len(ts) |->
                    [ tkhd |-> [track_id |-> FromInt(ts[i].id),
                                duration |-> Trunc(ts[i].tkhdDur, IF ts[i].tkhdVer = 1 THEN 2 * WB ELSE WB)],
                      mdhd |-> [timescale |-> ts[i].conf.timescale,
                                duration |-> Trunc(ts[i].mdhdDur, IF ts[i].mdhdVer = 1 THEN 2 * WB ELSE WB)],
                      tbl  |-> TblOfTrack(ts[i]) ]] ]

ModelPayloadOK(l, off, len, b) == len = 0 \/ [off |-> off, len |-> len, id |-> b] \in l

IWriteEnd ==
  /\ phase = "open" /\ Len(tw) = Len(Confs)
  /\ \E e \in {EndTracksR(tw, 1, pos, lay)} :
       /\ tw' = e.ts /\ pos' = e.pos /\ lay' = e.lay
       \* the model does NOT assume the property: it adopts the file it computes,
       \* the invariants below judge it
       /\ phase' = "ended" /\ file' = FileOf(e.ts, e.pos) /\ UNCHANGED <<cfg, tracks>>
  /\ calls' = Append(calls, [op |-> "end"])
  /\ UNCHANGED <<rejects, faults>>

INext == IStart \/ IAddTrack \/ IWriteSample \/ IWriteSampleFault \/ IRejectWrite \/ IWriteEnd
ISpec == IInit /\ [][INext]_ivars

-----------------------------------------------------------------------------
(* what TLC checks: the model's output refines Mux!WriteEnd *)
PayloadInModel(off, len, b) == ModelPayloadOK(lay, off, len, b)

OutputWellFormed == phase = "ended" /\ faults = 0 => WellFormed(file)                              \* C02, C13
OutputDecodes    == phase = "ended" /\ faults = 0 => Decodes(file, tracks, PayloadInModel)        \* C01, C13
\* C17: no call panics, whatever the stream did to earlier calls
NoPanic == \A i \in 1..Len(tw) : ~tw[i].panicked
\* rejected calls leave no trace: the model state of a history with rejected calls equals the
\* state without them (IRejectWrite changes only `calls` and `rejects`)
RejectsInvisible == [][IRejectWrite => UNCHANGED <<phase, cfg, tracks, file, tw, pos, lay, faults>>]_ivars

\* every terminal state is one replay case for the real code
EmitCase == phase = "ended" => PrintT("CASE " \o ToJson([calls |-> calls, n |-> Len(Confs)]))
=============================================================================
