---------------------------- MODULE Trace_Stream ----------------------------
(***************************************************************************)
(* C10 on recorded executions.  A session is a sequence of library calls   *)
(* (open, read*, or start, add*, write*, end) on one stream.  The `clean`  *)
(* event is the session on a well-behaved stream; every `faulty` event is  *)
(* the same session with ONE injected fault (the k-th stream call fails,   *)
(* or the k-th write accepts zero bytes); every `split` event is the same  *)
(* session on a stream that transfers fewer bytes than requested and       *)
(* reports interrupted calls.  Per library call the harness records the    *)
(* result class, a digest of the result and whether the fault fired during *)
(* that call.  Stream.tla's properties, at library-call granularity:       *)
(*   FaultSurfaces   the call during which the fault fired returns an I/O  *)
(*                   error -- not success, not another error, not a panic; *)
(*                   calls before it (and, for a reader, after it) return  *)
(*                   what they return on the clean stream;                 *)
(*   NoSpuriousError a fault that never fired changes nothing;             *)
(*   Transparent     short transfers and interrupts change nothing, the    *)
(*                   muxer's output bytes included.                        *)
(***************************************************************************)
EXTENDS Naturals, Sequences, FiniteSets, Json, IOUtils, TLC, TLCExt

Rec == ndJsonDeserialize(IOEnv.TRACE)
VARIABLES l, run, ref
vars == <<l, run, ref>>
TInit == l = 1 /\ run = "" /\ ref = <<>>
ev == Rec[l]
IsEvent(e) == l <= Len(Rec) /\ ev.e = e /\ l' = l + 1
Fail(what, detail) == PrintT(ToJson(<<"FAIL", l, run, "C10", what, detail>>))
Check(cond, what, detail) == IF cond THEN TRUE ELSE Fail(what, detail)

Obs(c) == [name |-> c.name, res |-> c.res, d |-> c.d]
Same(a, b) == Obs(a) = Obs(b)

TReset == IsEvent("reset") /\ run' = ev.id /\ ref' = <<>>
TClean == /\ IsEvent("clean") /\ ref' = ev.calls
          /\ Check(\A j \in 1..Len(ev.calls) : ev.calls[j].res # "panic" /\ ev.calls[j].res # "ioerr",
                   "the clean session does not complete", [j \in 1..Len(ev.calls) |-> ev.calls[j].res])
          /\ UNCHANGED run

Fired(cs) == {j \in 1..Len(cs) : cs[j].fired}

TFaulty ==
  /\ IsEvent("faulty")
  /\ LET cs == ev.calls  fs == Fired(cs) IN
     IF fs = {}
     THEN Check(Len(cs) = Len(ref) /\ \A j \in 1..Len(cs) : Same(cs[j], ref[j]),
                "a fault that did not fire changed a result", <<ev.kind, ev.k>>)
     ELSE LET i == CHOOSE j \in fs : \A x \in fs : j <= x IN
          /\ Check(cs[i].res = "ioerr", "a failed stream call did not surface as an I/O error",
                   <<ev.kind, ev.k, cs[i].name, i, cs[i].res>>)
          /\ Check(\A j \in 1..(i - 1) : j <= Len(ref) /\ Same(cs[j], ref[j]),
                   "a call before the fault differs from the clean session", <<ev.kind, ev.k>>)
          /\ Check(ev.mux \/ cs[i].name = "open" \/
                   (Len(cs) = Len(ref) /\ \A j \in (i + 1)..Len(cs) : Same(cs[j], ref[j])),
                   "a call after the failed one differs from the clean session", <<ev.kind, ev.k, i>>)
  /\ UNCHANGED <<run, ref>>

TSplit == /\ IsEvent("split")
          /\ Check(Len(ev.calls) = Len(ref) /\ \A j \in 1..Len(ev.calls) : Same(ev.calls[j], ref[j]),
                   "short transfers / interrupts changed a result or the output bytes",
                   <<ev.pattern, {<<j, ev.calls[j].name, ev.calls[j].res>> : j \in {j \in 1..Len(ev.calls) : j > Len(ref) \/ ~Same(ev.calls[j], ref[j])}}>>)
          /\ UNCHANGED <<run, ref>>

TNext == TReset \/ TClean \/ TFaulty \/ TSplit
TSpec == TInit /\ [][TNext]_vars
Accepted == TLCGet("stats").diameter - 1 = Len(Rec)
            \/ PrintT(ToJson(<<"STUCK", TLCGet("stats").diameter, Len(Rec),
                        IF TLCGet("stats").diameter <= Len(Rec) THEN Rec[TLCGet("stats").diameter].e ELSE "-">>))
=============================================================================
