SPECIFICATION ISpec
CONSTANTS
  WB = 1
  MovieTs <- Three
  StartPos <- Zero
  FtypLen = 4
  Confs <- Confs2
  Alphabet <- AlphaSmall
  MaxSamples = 2
  MaxRejects = 1
  FixEmptyChunk = TRUE
  FixStss = TRUE
  FixTkhd = TRUE
  FixFlushOrder = TRUE
  MaxFaults = 0
INVARIANTS NoPanic OutputWellFormed OutputDecodes EmitCase
PROPERTY RejectsInvisible
CHECK_DEADLOCK FALSE
