SPECIFICATION Spec
CONSTANTS
  Base = "plainone"
  MaxOps = 2
  OpKinds = {"swap"}
INVARIANTS LayoutInvariant Emit
CHECK_DEADLOCK FALSE
