SPECIFICATION Spec
CONSTANTS
  Base = "fragemsg"
  MaxOps = 0
  OpKinds = {"free", "unk", "swap", "large", "spare"}
INVARIANTS LayoutInvariant Emit
CHECK_DEADLOCK FALSE
