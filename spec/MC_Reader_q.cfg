SPECIFICATION Spec
CONSTANTS
  Kinds = {"read", "offset", "count"}
  Tracks = {0, 1, 2}
  Ids = {"0", "1", "n", "n+1"}
  MaxLen = 2
INVARIANT Emit
CHECK_DEADLOCK FALSE
