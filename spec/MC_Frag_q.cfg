SPECIFICATION Spec
CONSTANTS
  Structures <- QuickStructures
  TrexDurs <- TrexBoth
  Bases = {"moof", "none", "start", "end", "exact", "both"}
  DurModes = {"per", "tfhd", "trex"}
  CtsModes = {"none", "v0", "v1neg"}
  TfdtVs = {0, 1}
  Orders = {"asc"}
  TrexPerTrack = FALSE
  MdatFirsts = {FALSE}
  Deliveries = {"one", "split"}
INVARIANT Emit
CHECK_DEADLOCK FALSE
