SPECIFICATION Spec
CONSTANTS
  FixDefaultDur = FALSE
  FixIdZero = TRUE
  MaxTrafs = 2
  MaxCount = 2
INVARIANT LookupAgrees
CHECK_DEADLOCK FALSE
