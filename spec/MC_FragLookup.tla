---------------------------- MODULE MC_FragLookup ----------------------------
EXTENDS FragLookup
CONSTANTS MaxTrafs, MaxCount
VARIABLES trafs, trex, k
vars == <<trafs, trex, k>>

\* run shapes: count x base mode x data offset x duration mode x cts
Runs(m) ==
  { [ moof |-> 100 * m, base |-> b, dataOff |-> d,
      sizes |-> [i \in 1..n |-> (i + m) % 3],
      durs |-> IF dm = "per" THEN Some([i \in 1..n |-> 2 * i + m]) ELSE None,
      tfhdDur |-> IF dm = "tfhd" THEN Some(5) ELSE None,
      tfdt |-> 1000 * m + 7,
      cts |-> IF c THEN Some([i \in 1..n |-> i - 2]) ELSE None ]
    : n \in 0..MaxCount, b \in {None, Some(40 * m + 3)}, d \in {None, Some(9), Some(-4)}, dm \in {"per", "tfhd", "trex"}, c \in BOOLEAN }

RECURSIVE TrafSeqs(_)
TrafSeqs(n) == IF n = 0 THEN {<<>>} ELSE {Append(s, r) : s \in TrafSeqs(n - 1), r \in Runs(n)}

Init == /\ trafs \in UNION {TrafSeqs(n) : n \in 1..MaxTrafs}
        /\ trex \in {0, 7}
        /\ k = 0
Step == /\ k <= Total(trafs) + 1
        /\ k' = k + 1 /\ UNCHANGED <<trafs, trex>>
Spec == Init /\ [][Step]_vars
LookupAgrees == k <= Total(trafs) + 1 => Agrees(trafs, trex, k)
==============================================================================
