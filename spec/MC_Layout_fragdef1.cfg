SPECIFICATION Spec
CONSTANTS
  Base = "fragdef"
  MaxOps = 1
  OpKinds = {"free", "unk", "swap", "large", "spare", "opt"}
INVARIANTS LayoutInvariant Emit
CHECK_DEADLOCK FALSE
