------------------------------ MODULE MC_Wire ------------------------------
(***************************************************************************)
(* C04 / C05, generator and spec-level theorems.  For every supported box  *)
(* type the SHAPE space is enumerated exhaustively -- version 0/1, every   *)
(* combination of the flag bits that gate optional fields, optional        *)
(* children present/absent, list lengths 0..2 (0..3 for tables) -- and for *)
(* each shape three value assignments: "min" (zeros), "max" (all ones      *)
(* within the wire width), "distinct" (every field a different pattern, so *)
(* that swapped, dropped or mis-sized fields are visible).                 *)
(* On the model TLC checks  Dec(Enc(v)) = v,  the size field = length,     *)
(* the box's own four-character code, and that the 64-bit-header and       *)
(* spare-byte variants decode to the same value.  Every case (value,       *)
(* reference bytes, variants) is replayed through the real codecs.         *)
(***************************************************************************)
EXTENDS WireAll, Json

Modes == {"min", "max", "distinct"}

\* ---- field values by mode; idx distinguishes fields -----------------------------------------
BigF(m, idx, w) == CASE m = "min" -> <<>> [] m = "max" -> [i \in 1..w |-> 255]
                     [] OTHER -> [i \in 1..w |-> ((idx * 16 + i) % 255) + 1]
IntF(m, idx, bits) == CASE m = "min" -> 0 [] m = "max" -> 2 ^ bits - 1 [] OTHER -> (idx * 37 + 11) % (2 ^ bits)
\* half range of a signed field of `bits` bits, minus one (2^31 itself does not fit a TLC integer)
HalfM1(bits) == IF bits = 32 THEN 2147483647 ELSE 2 ^ (bits - 1) - 1
SIntF(m, idx, bits) == CASE m = "min" -> -HalfM1(bits) - 1 [] m = "max" -> HalfM1(bits)
                         [] OTHER -> IF idx % 2 = 0 THEN (idx * 29 + 3) % HalfM1(bits) ELSE -((idx * 31 + 5) % HalfM1(bits))
BytesF(m, idx, n) == [i \in 1..n |-> CASE m = "min" -> 0 [] m = "max" -> 255 [] OTHER -> (idx * 7 + i * 3) % 256]
\* text fields: "max" uses two-byte UTF-8 characters (é = C3 A9; a trailing z when n is odd), so that a
\* length counted in characters differs from the length in bytes
TextF(m, idx, n) == IF m = "min" THEN <<>>
                    ELSE IF m = "max" THEN [i \in 1..n |-> IF i = n /\ n % 2 = 1 THEN 122 ELSE IF i % 2 = 1 THEN 195 ELSE 169]
                    ELSE [i \in 1..n |-> 97 + ((idx + i) % 26)]
BoolF(m, idx) == m = "max" \/ (m = "distinct" /\ idx % 2 = 1)
CCF(m, idx) == CASE m = "min" -> <<0, 0, 0, 0>> [] m = "max" -> <<255, 255, 255, 255>> [] OTHER -> <<97 + (idx % 26), 98, 99, 48 + (idx % 10)>>
FlagsF(m, idx) == IntF(m, idx, 24)
MatrixF(m) == [a |-> SIntF(m, 1, 32), b |-> SIntF(m, 2, 32), u |-> SIntF(m, 3, 32), c |-> SIntF(m, 4, 32), d |-> SIntF(m, 5, 32),
               v |-> SIntF(m, 6, 32), x |-> SIntF(m, 7, 32), y |-> SIntF(m, 8, 32), w |-> SIntF(m, 9, 32)]
LangF(m) == CASE m = "min" -> <<96, 96, 96>> [] m = "max" -> <<127, 127, 127>> [] OTHER -> <<101, 110, 103>>

\* ---- leaf values --------------------------------------------------------------------------------
VFtyp(m, n) == [major_brand |-> CCF(m, 1), minor_version |-> BigF(m, 2, 4), compatible_brands |-> [i \in 1..n |-> CCF(m, 2 + i)]]
VMvhd(m, ver) == [version |-> ver, flags |-> FlagsF(m, 1), creation_time |-> BigF(m, 2, TW(ver)), modification_time |-> BigF(m, 3, TW(ver)),
                  timescale |-> BigF(m, 4, 4), duration |-> BigF(m, 5, TW(ver)), rate |-> BigF(m, 6, 4), volume |-> IntF(m, 7, 16),
                  matrix |-> MatrixF(m), next_track_id |-> BigF(m, 8, 4)]
VTkhd(m, ver) == [version |-> ver, flags |-> FlagsF(m, 1), creation_time |-> BigF(m, 2, TW(ver)), modification_time |-> BigF(m, 3, TW(ver)),
                  track_id |-> BigF(m, 4, 4), duration |-> BigF(m, 5, TW(ver)), layer |-> IntF(m, 6, 16), alternate_group |-> IntF(m, 7, 16),
                  volume |-> IntF(m, 8, 16), matrix |-> MatrixF(m), width |-> BigF(m, 9, 4), height |-> BigF(m, 10, 4)]
VMdhd(m, ver) == [version |-> ver, flags |-> FlagsF(m, 1), creation_time |-> BigF(m, 2, TW(ver)), modification_time |-> BigF(m, 3, TW(ver)),
                  timescale |-> BigF(m, 4, 4), duration |-> BigF(m, 5, TW(ver)), language |-> LangF(m)]
VHdlr(m, n) == [version |-> IntF(m, 1, 8), flags |-> FlagsF(m, 2), handler_type |-> CCF(m, 3), name |-> TextF(m, 4, n)]
VVmhd(m) == [version |-> IntF(m, 1, 8), flags |-> FlagsF(m, 2), graphics_mode |-> IntF(m, 3, 16),
             op_color |-> [red |-> IntF(m, 4, 16), green |-> IntF(m, 5, 16), blue |-> IntF(m, 6, 16)]]
VSmhd(m) == [version |-> IntF(m, 1, 8), flags |-> FlagsF(m, 2), balance |-> SIntF(m, 3, 16)]
VUrl(m, n) == [version |-> IntF(m, 1, 8), flags |-> FlagsF(m, 2), location |-> IF n = 0 THEN <<>> ELSE [i \in 1..n |-> 97 + ((i * 5) % 26)]]
VDref(m, withUrl) == [version |-> IntF(m, 1, 8), flags |-> FlagsF(m, 2), url |-> IF withUrl THEN Some(VUrl(m, 3)) ELSE None]
VDinf(m, withUrl) == [dref |-> VDref(m, withUrl)]
VStts(m, n) == [version |-> IntF(m, 1, 8), flags |-> FlagsF(m, 2),
                entries |-> [i \in 1..n |-> [sample_count |-> BigF(m, 2 * i + 1, 4), sample_delta |-> BigF(m, 2 * i + 2, 4)]]]
VCtts(m, n) == [version |-> IntF(m, 1, 8), flags |-> FlagsF(m, 2),
                entries |-> [i \in 1..n |-> [sample_count |-> BigF(m, 2 * i + 1, 4), sample_offset |-> SIntF(m, i, 32)]]]
VStss(m, n) == [version |-> IntF(m, 1, 8), flags |-> FlagsF(m, 2), entries |-> [i \in 1..n |-> BigF(m, i + 2, 4)]]
\* (stsc entries keep first_chunk increasing and small: the library derives first_sample from them while decoding)
VStsc(m, n) == [version |-> IntF(m, 1, 8), flags |-> FlagsF(m, 2),
                entries |-> [i \in 1..n |-> [first_chunk |-> IF m = "distinct" THEN FromInt(3 * i - 2) ELSE BigF(m, 3 * i, 4),
                                             samples_per_chunk |-> IF m = "distinct" THEN FromInt(i + 1) ELSE BigF(m, 3 * i + 1, 4),
                                             sample_description_index |-> BigF(m, 3 * i + 2, 4)]]]
VStco(m, n) == [version |-> IntF(m, 1, 8), flags |-> FlagsF(m, 2), entries |-> [i \in 1..n |-> BigF(m, i + 2, 4)]]
VCo64(m, n) == [version |-> IntF(m, 1, 8), flags |-> FlagsF(m, 2), entries |-> [i \in 1..n |-> BigF(m, i + 2, 8)]]
\* stsz: n = -1 is the constant-size form
VStsz(m, n) == IF n < 0
               THEN [version |-> IntF(m, 1, 8), flags |-> FlagsF(m, 2), sample_size |-> IF m = "min" THEN <<1>> ELSE BigF(m, 3, 4),
                     sample_count |-> BigF(m, 4, 4), sample_sizes |-> <<>>]
               ELSE [version |-> IntF(m, 1, 8), flags |-> FlagsF(m, 2), sample_size |-> <<>>, sample_count |-> FromInt(n),
                     sample_sizes |-> [i \in 1..n |-> BigF(m, i + 4, 4)]]
VMehd(m, ver) == [version |-> ver, flags |-> FlagsF(m, 1), fragment_duration |-> BigF(m, 2, TW(ver))]
VTrex(m) == [version |-> IntF(m, 1, 8), flags |-> FlagsF(m, 2), track_id |-> BigF(m, 3, 4), default_sample_description_index |-> BigF(m, 4, 4),
             default_sample_duration |-> BigF(m, 5, 4), default_sample_size |-> BigF(m, 6, 4), default_sample_flags |-> BigF(m, 7, 4)]
VMfhd(m) == [version |-> IntF(m, 1, 8), flags |-> FlagsF(m, 2), sequence_number |-> BigF(m, 3, 4)]
\* tfhd: fl = set of optional-field flag bits that are set (plus the two informational bits)
SumSet(S) == LET RECURSIVE R(_) R(T) == IF T = {} THEN 0 ELSE LET x == CHOOSE x \in T : TRUE IN x + R(T \ {x}) IN R(S)
VTfhd(m, fl) ==
  [version |-> IntF(m, 1, 8), flags |-> SumSet(fl), track_id |-> BigF(m, 2, 4),
   base_data_offset |-> IF TFHD_BASE \in fl THEN Some(BigF(m, 3, 8)) ELSE None,
   sample_description_index |-> IF TFHD_SDI \in fl THEN Some(BigF(m, 4, 4)) ELSE None,
   default_sample_duration |-> IF TFHD_DUR \in fl THEN Some(BigF(m, 5, 4)) ELSE None,
   default_sample_size |-> IF TFHD_SIZE \in fl THEN Some(BigF(m, 6, 4)) ELSE None,
   default_sample_flags |-> IF TFHD_FLAGS \in fl THEN Some(BigF(m, 7, 4)) ELSE None]
VTfdt(m, ver) == [version |-> ver, flags |-> FlagsF(m, 1), base_media_decode_time |-> BigF(m, 2, TW(ver))]
VTrun(m, ver, fl, n) ==
  [version |-> ver, flags |-> SumSet(fl), sample_count |-> FromInt(n),
   data_offset |-> IF TRUN_OFFSET \in fl THEN Some(SIntF(m, 2, 32)) ELSE None,
   first_sample_flags |-> IF TRUN_FIRST \in fl THEN Some(BigF(m, 3, 4)) ELSE None,
   sample_durations |-> IF TRUN_DUR \in fl THEN [i \in 1..n |-> BigF(m, 4 * i, 4)] ELSE <<>>,
   sample_sizes |-> IF TRUN_SIZE \in fl THEN [i \in 1..n |-> BigF(m, 4 * i + 1, 4)] ELSE <<>>,
   sample_flags |-> IF TRUN_FLAGS \in fl THEN [i \in 1..n |-> BigF(m, 4 * i + 2, 4)] ELSE <<>>,
   sample_cts |-> IF TRUN_CTS \in fl THEN [i \in 1..n |-> BigF(m, 4 * i + 3, 4)] ELSE <<>>]
VElst(m, ver, n) == [version |-> ver, flags |-> FlagsF(m, 1),
                     entries |-> [i \in 1..n |-> [segment_duration |-> BigF(m, 4 * i, TW(ver)), media_time |-> BigF(m, 4 * i + 1, TW(ver)),
                                                  media_rate |-> IntF(m, 4 * i + 2, 16), media_rate_fraction |-> IntF(m, 4 * i + 3, 16)]]]
VEdts(m, with) == [elst |-> IF with THEN Some(VElst(m, 0, 1)) ELSE None]
VEmsg(m, ver, n) == [version |-> ver, flags |-> FlagsF(m, 1), timescale |-> BigF(m, 2, 4),
                     presentation_time |-> IF ver = 1 THEN Some(BigF(m, 3, 8)) ELSE None,
                     presentation_time_delta |-> IF ver = 0 THEN Some(BigF(m, 4, 4)) ELSE None,
                     event_duration |-> BigF(m, 5, 4), id |-> BigF(m, 6, 4),
                     scheme_id_uri |-> TextF(m, 7, 2 * n), value |-> TextF(m, 8, n), message_data |-> BytesF(m, 9, n)]
VData(m, ty, n) == [data_type |-> FromInt(ty), data |-> BytesF(m, 2, n)]
VNal(m, idx, n) == [bytes |-> BytesF(m, idx, n)]
VAvcC(m, ns, np) == [configuration_version |-> IntF(m, 1, 8), avc_profile_indication |-> IntF(m, 2, 8), profile_compatibility |-> IntF(m, 3, 8),
                     avc_level_indication |-> IntF(m, 4, 8), length_size_minus_one |-> IntF(m, 5, 2),
                     sequence_parameter_sets |-> [i \in 1..ns |-> VNal(m, 10 + i, i + 2)],
                     picture_parameter_sets |-> [i \in 1..np |-> VNal(m, 20 + i, i)]]
VAvcCMany(m, ns, np) == [VAvcC(m, 0, 0) EXCEPT !.sequence_parameter_sets = [i \in 1..ns |-> [bytes |-> <<103, i>>]],
                                                 !.picture_parameter_sets = [i \in 1..np |-> [bytes |-> <<i>>]]]
VVisual(m) == [data_reference_index |-> IntF(m, 1, 16), width |-> IntF(m, 2, 16), height |-> IntF(m, 3, 16),
               horizresolution |-> BigF(m, 4, 4), vertresolution |-> BigF(m, 5, 4), frame_count |-> IntF(m, 6, 16), depth |-> IntF(m, 7, 16)]
VAvc1(m, ns, np) == [avcc |-> VAvcC(m, ns, np)] @@ VVisual(m)
VHvcC(m, na, nn) == [configuration_version |-> IntF(m, 1, 8), general_profile_space |-> IntF(m, 2, 2), general_tier_flag |-> BoolF(m, 3),
                     general_profile_idc |-> IntF(m, 4, 5), general_profile_compatibility_flags |-> BigF(m, 5, 4),
                     general_constraint_indicator_flag |-> BigF(m, 6, 6), general_level_idc |-> IntF(m, 7, 8),
                     min_spatial_segmentation_idc |-> IntF(m, 8, 12), parallelism_type |-> IntF(m, 9, 2), chroma_format_idc |-> IntF(m, 10, 2),
                     bit_depth_luma_minus8 |-> IntF(m, 11, 3), bit_depth_chroma_minus8 |-> IntF(m, 12, 3), avg_frame_rate |-> IntF(m, 13, 16),
                     constant_frame_rate |-> IntF(m, 14, 2), num_temporal_layers |-> IntF(m, 15, 3), temporal_id_nested |-> BoolF(m, 16),
                     length_size_minus_one |-> IntF(m, 17, 2),
                     arrays |-> [a \in 1..na |-> [completeness |-> BoolF(m, a), nal_unit_type |-> IntF(m, 20 + a, 6),
                                                  nalus |-> [j \in 1..nn |-> [size |-> j + 1, data |-> BytesF(m, 30 + a + j, j + 1)]]]]]
VHev1(m, na, nn) == [hvcc |-> VHvcC(m, na, nn)] @@ VVisual(m)
VVpcC(m) == [version |-> IntF(m, 1, 8), flags |-> FlagsF(m, 2), profile |-> IntF(m, 3, 8), level |-> IntF(m, 4, 8), bit_depth |-> IntF(m, 5, 4),
             chroma_subsampling |-> IntF(m, 6, 3), video_full_range_flag |-> BoolF(m, 7), color_primaries |-> IntF(m, 8, 8),
             transfer_characteristics |-> IntF(m, 9, 8), matrix_coefficients |-> IntF(m, 10, 8), codec_initialization_data_size |-> IntF(m, 11, 16)]
VVp09(m) == [version |-> IntF(m, 1, 8), flags |-> FlagsF(m, 2), start_code |-> IntF(m, 3, 16), data_reference_index |-> IntF(m, 4, 16),
             reserved0 |-> BytesF(m, 5, 16), width |-> IntF(m, 6, 16), height |-> IntF(m, 7, 16),
             horizresolution |-> <<IntF(m, 8, 16), IntF(m, 9, 16)>>, vertresolution |-> <<IntF(m, 10, 16), IntF(m, 11, 16)>>,
             reserved1 |-> BytesF(m, 12, 4), frame_count |-> IntF(m, 13, 16), compressorname |-> BytesF(m, 14, 32), depth |-> IntF(m, 15, 16),
             end_code |-> IntF(m, 16, 16), vpcc |-> VVpcC(m)]
\* audio object types: below the escape, the escape boundary, and extended ones
VEsds(m, aot) == [version |-> IntF(m, 1, 8), flags |-> FlagsF(m, 2),
                  es_desc |-> [es_id |-> IntF(m, 3, 16),
                               dec_config |-> [object_type_indication |-> IntF(m, 4, 8), stream_type |-> IntF(m, 5, 6),
                                               up_stream |-> IF BoolF(m, 6) THEN 2 ELSE 0, buffer_size_db |-> IntF(m, 7, 24),
                                               max_bitrate |-> BigF(m, 8, 4), avg_bitrate |-> BigF(m, 9, 4),
                                               dec_specific |-> [profile |-> aot, freq_index |-> IF m = "max" THEN 12 ELSE IntF(m, 10, 3),
                                                                 chan_conf |-> IF m = "max" THEN 7 ELSE IntF(m, 11, 2)]],
                               sl_config |-> [x \in {} |-> 0]]]
VMp4a(m, aot) == [data_reference_index |-> IntF(m, 1, 16), channelcount |-> IntF(m, 2, 16), samplesize |-> IntF(m, 3, 16),
                  samplerate |-> BigF(m, 4, 4), esds |-> IF aot = 0 THEN None ELSE Some(VEsds(m, aot))]
VTx3g(m) == [data_reference_index |-> IntF(m, 1, 16), display_flags |-> BigF(m, 2, 4), horizontal_justification |-> SIntF(m, 3, 8),
             vertical_justification |-> SIntF(m, 4, 8),
             bg_color_rgba |-> [red |-> IntF(m, 5, 8), green |-> IntF(m, 6, 8), blue |-> IntF(m, 7, 8), alpha |-> IntF(m, 8, 8)],
             box_record |-> <<SIntF(m, 9, 16), SIntF(m, 10, 16), SIntF(m, 11, 16), SIntF(m, 12, 16)>>, style_record |-> BytesF(m, 13, 12)]

\* ---- container values ------------------------------------------------------------------------------
VStsd(m, kind) == [version |-> IntF(m, 1, 8), flags |-> FlagsF(m, 2),
                   avc1 |-> IF kind = "avc1" THEN Some(VAvc1(m, 1, 1)) ELSE None, hev1 |-> IF kind = "hev1" THEN Some(VHev1(m, 1, 1)) ELSE None,
                   vp09 |-> IF kind = "vp09" THEN Some(VVp09(m)) ELSE None, mp4a |-> IF kind = "mp4a" THEN Some(VMp4a(m, 2)) ELSE None,
                   tx3g |-> IF kind = "tx3g" THEN Some(VTx3g(m)) ELSE None]
\* opt "both" (with "co64"): the two chunk offset tables side by side
VStbl(m, opt) == [stsd |-> VStsd(m, "mp4a"), stts |-> VStts(m, 1), ctts |-> IF "ctts" \in opt THEN Some(VCtts(m, 1)) ELSE None,
                  stss |-> IF "stss" \in opt THEN Some(VStss(m, 2)) ELSE None, stsc |-> VStsc(m, 1), stsz |-> VStsz(m, 2),
                  stco |-> IF "co64" \in opt /\ "both" \notin opt THEN None ELSE Some(VStco(m, 1)), co64 |-> IF "co64" \in opt THEN Some(VCo64(m, 1)) ELSE None]
VMinf(m, hd) == [vmhd |-> IF hd = "vmhd" THEN Some(VVmhd(m)) ELSE None, smhd |-> IF hd = "smhd" THEN Some(VSmhd(m)) ELSE None,
                 dinf |-> VDinf(m, TRUE), stbl |-> VStbl(m, {})]
VMdia(m) == [mdhd |-> VMdhd(m, 0), hdlr |-> VHdlr(m, 2), minf |-> VMinf(m, "vmhd")]
VIlst(m, keys) == [items |-> [k \in keys |-> [data |-> VData(m, IF k = "Poster" THEN 13 ELSE 1, 3)]]]
VMeta(m, kind) == CASE kind = "mdir" -> [kind |-> "Mdir", ilst |-> Some(VIlst(m, {"Title", "Year"}))]
                    [] kind = "mdir-noilst" -> [kind |-> "Mdir", ilst |-> None]
                    [] kind = "unknown" -> [kind |-> "Unknown", hdlr |-> [VHdlr(m, 2) EXCEPT !.handler_type = <<109, 100, 116, 97>>],
                                            data |-> << <<<<107, 101, 121, 115>>, BytesF(m, 3, 5)>>, <<<<105, 108, 115, 116>>, <<>>>> >>]
                    \* opaque children of a non-'mdir' meta are kept verbatim, a free box among them included
                    [] kind = "unknown-free" -> [kind |-> "Unknown", hdlr |-> [VHdlr(m, 2) EXCEPT !.handler_type = <<109, 100, 116, 98>>],
                                                 data |-> << <<<<102, 114, 101, 101>>, BytesF(m, 3, 4)>>, <<<<107, 101, 121, 115>>, BytesF(m, 4, 2)>>,
                                                             <<<<102, 114, 101, 101>>, <<>>>> >>]
VUdta(m, kind) == [meta |-> IF kind = "none" THEN None ELSE Some(VMeta(m, kind))]
VTrak(m, edts, meta) == [tkhd |-> VTkhd(m, 0), edts |-> IF edts THEN Some(VEdts(m, TRUE)) ELSE None,
                         meta |-> IF meta THEN Some(VMeta(m, "mdir")) ELSE None, mdia |-> VMdia(m)]
VMvex(m, mehd) == [mehd |-> IF mehd THEN Some(VMehd(m, 1)) ELSE None, trex |-> VTrex(m)]
VMoov(m, nt, mvex, udta, meta) == [mvhd |-> VMvhd(m, 0), meta |-> IF meta THEN Some(VMeta(m, "mdir-noilst")) ELSE None,
                                   mvex |-> IF mvex THEN Some(VMvex(m, FALSE)) ELSE None,
                                   traks |-> [i \in 1..nt |-> VTrak(m, i = 2, FALSE)], udta |-> IF udta THEN Some(VUdta(m, "mdir")) ELSE None]
VTraf(m, tfdt, trun) == [tfhd |-> VTfhd(m, {TFHD_DUR}), tfdt |-> IF tfdt THEN Some(VTfdt(m, 1)) ELSE None,
                         trun |-> IF trun THEN Some(VTrun(m, 0, {TRUN_OFFSET, TRUN_SIZE}, 2)) ELSE None]
VMoof(m, nt) == [mfhd |-> VMfhd(m), trafs |-> [i \in 1..nt |-> VTraf(m, i = 1, TRUE)]]

-----------------------------------------------------------------------------
TfhdFlagSets == SUBSET {TFHD_BASE, TFHD_SDI, TFHD_DUR, TFHD_SIZE, TFHD_FLAGS}
TrunFlagSets == SUBSET {TRUN_OFFSET, TRUN_FIRST, TRUN_DUR, TRUN_SIZE, TRUN_FLAGS, TRUN_CTS}

\* the values (shapes) generated for box type t under value assignment m
ValsOf(t, m) ==
  CASE t = "ftyp" -> {VFtyp(m, n) : n \in 0..2}
    [] t = "mvhd" -> {VMvhd(m, v) : v \in {0, 1}}
    [] t = "tkhd" -> {VTkhd(m, v) : v \in {0, 1}}
    [] t = "mdhd" -> {VMdhd(m, v) : v \in {0, 1}}
    \* names whose first byte, read as a number, is (about) the length of the name: what a counted
    \* "Pascal" string would look like, with and without counting the byte itself / the terminator
    [] t = "hdlr" -> {VHdlr(m, n) : n \in {0, 3}}
                     \cup {[VHdlr(m, 0) EXCEPT !.name = <<n>> \o [i \in 1..k |-> 97 + (i % 26)]] : n \in {9, 32}, k \in {7, 8, 9, 30, 31, 32}}
    [] t = "vmhd" -> {VVmhd(m)}
    [] t = "smhd" -> {VSmhd(m)}
    [] t = "url " -> {VUrl(m, n) : n \in {0, 4}}
    [] t = "dref" -> {VDref(m, w) : w \in BOOLEAN}
    [] t = "dinf" -> {VDinf(m, w) : w \in BOOLEAN}
    [] t = "stts" -> {VStts(m, n) : n \in 0..3}
    [] t = "ctts" -> {VCtts(m, n) : n \in 0..3}
    [] t = "stss" -> {VStss(m, n) : n \in 0..3}
    [] t = "stsc" -> {VStsc(m, n) : n \in 0..3}
    [] t = "stco" -> {VStco(m, n) : n \in 0..3}
    [] t = "co64" -> {VCo64(m, n) : n \in 0..3}
    [] t = "stsz" -> {VStsz(m, n) : n \in -1..3}
    [] t = "mehd" -> {VMehd(m, v) : v \in {0, 1}}
    [] t = "trex" -> {VTrex(m)}
    [] t = "mfhd" -> {VMfhd(m)}
    [] t = "tfhd" -> {VTfhd(m, fl \cup ex) : fl \in TfhdFlagSets, ex \in {{}, {TFHD_BASE_IS_MOOF}, {TFHD_EMPTY}}}
    [] t = "tfdt" -> {VTfdt(m, v) : v \in {0, 1}}
    [] t = "trun" -> {VTrun(m, v, fl, n) : v \in {0, 1}, fl \in TrunFlagSets, n \in 0..2}
    [] t = "elst" -> {VElst(m, v, n) : v \in {0, 1}, n \in 0..2}
    [] t = "edts" -> {VEdts(m, w) : w \in BOOLEAN}
    [] t = "emsg" -> {VEmsg(m, v, n) : v \in {0, 1}, n \in 0..2}
    [] t = "data" -> {VData(m, ty, n) : ty \in {0, 1, 13, 21}, n \in {0, 1, 4}}
    \* numOfPictureParameterSets is a full byte (numOfSequenceParameterSets has 5 bits): 33 and 255 sets
    [] t = "avcC" -> {VAvcC(m, a, b) : a \in 0..2, b \in 0..2} \cup {VAvcCMany(m, 31, 33), VAvcCMany(m, 1, 255)}
    [] t = "avc1" -> {VAvc1(m, a, b) : a \in 0..1, b \in 0..1}
    \* ... and NAL units of 65534 / 65535 bytes (2 + length no longer fits 16 bits)
    [] t = "hvcC" -> {VHvcC(m, a, b) : a \in 0..2, b \in 0..2}
                     \cup {[VHvcC(m, 0, 0) EXCEPT !.arrays = <<[completeness |-> TRUE, nal_unit_type |-> 32,
                                                                nalus |-> <<[size |-> n, data |-> [i \in 1..n |-> (i * 7) % 256]]>>]>>] : n \in {65534, 65535}}
    [] t = "hev1" -> {VHev1(m, a, b) : a \in 0..1, b \in 0..1}
    [] t = "vpcC" -> {VVpcC(m)}
    [] t = "vp09" -> {VVp09(m)}
    [] t = "esds" -> {VEsds(m, a) : a \in {1, 2, 30, 32, 36, 46}}
    [] t = "mp4a" -> {VMp4a(m, a) : a \in {0, 2, 34}}
    [] t = "tx3g" -> {VTx3g(m)}
    [] t = "stsd" -> {VStsd(m, k) : k \in {"avc1", "hev1", "vp09", "mp4a", "tx3g", "none"}}    \* "none": no sample entry (the Default value)
    [] t = "stbl" -> {VStbl(m, o) : o \in (SUBSET {"ctts", "stss", "co64"}) \cup {{"co64", "both"}}}
    [] t = "minf" -> {VMinf(m, h) : h \in {"vmhd", "smhd", "none"}}
    [] t = "mdia" -> {VMdia(m)}
    [] t = "ilst" -> {VIlst(m, ks) : ks \in SUBSET {"Title", "Year", "Poster", "Summary"}}
    [] t = "meta" -> {VMeta(m, k) : k \in {"mdir", "mdir-noilst", "unknown", "unknown-free"}}
    [] t = "udta" -> {VUdta(m, k) : k \in {"none", "mdir", "unknown"}}
    [] t = "trak" -> {VTrak(m, e, x) : e \in BOOLEAN, x \in BOOLEAN}
    [] t = "mvex" -> {VMvex(m, w) : w \in BOOLEAN}
    [] t = "moov" -> {VMoov(m, n, x, u, y) : n \in 0..2, x \in BOOLEAN, u \in BOOLEAN, y \in BOOLEAN}
    [] t = "traf" -> {VTraf(m, a, b) : a \in BOOLEAN, b \in BOOLEAN}
    [] t = "moof" -> {VMoof(m, n) : n \in 0..2}

Types == {"ftyp", "mvhd", "tkhd", "mdhd", "hdlr", "vmhd", "smhd", "url ", "dref", "dinf", "stts", "ctts", "stss", "stsc", "stco", "co64", "stsz", "mehd", "trex", "mfhd", "tfhd", "tfdt", "trun", "elst", "edts", "emsg", "data", "avcC", "avc1", "hvcC", "hev1", "vpcC", "vp09", "esds", "mp4a", "tx3g", "stsd", "stbl", "minf", "mdia", "ilst", "meta", "udta", "trak", "mvex", "moov", "traf", "moof"}

-----------------------------------------------------------------------------
VARIABLES ty, mode, out
vars == <<ty, mode, out>>
Init == ty \in Types /\ mode \in Modes /\ out = [done |-> FALSE]

\* pick a value of the type, encode it with the reference encoder, decode it back, build the
\* non-canonical variants
Render ==
  /\ ~out.done
  /\ \E v \in ValsOf(ty, mode) :
     \E enc \in {EncAny(ty, v)} :
     \E dec \in {DecAny(ty, enc, Whole(enc))} :
     \E large \in {AsLarge(enc)} :
     \E spare \in {IF SpareOK(ty) THEN WithSpare(enc, 5) ELSE <<>>} :
     \* esds: every descriptor length padded to four bytes (0x80 0x80 0x80 n), as many muxers write it
     \E padded \in {IF ty = "esds" THEN EncEsdsPadded(v) ELSE <<>>} :
     \E long \in {IF ty = "esds" THEN EncEsdsLong(v) ELSE <<>>} :
     \E kids \in {IF KidOK(ty) THEN WithKids(ty, enc) ELSE <<>>} :
       out' = [ done |-> TRUE, v |-> v, enc |-> enc, dec |-> dec, large |-> large, spare |-> spare, padded |-> padded,
                long |-> long, decLong |-> IF ty = "esds" THEN DecAny(ty, long, Whole(long)) ELSE dec,
                decPadded |-> IF ty = "esds" THEN DecAny(ty, padded, Whole(padded)) ELSE dec,
                kids |-> kids, decKids |-> IF KidOK(ty) THEN DecAny(ty, kids, Whole(kids)) ELSE dec,
                decLarge |-> DecAny(ty, large, Whole(large)),
                decSpare |-> IF SpareOK(ty) THEN DecAny(ty, spare, Whole(spare)) ELSE dec ]
  /\ UNCHANGED <<ty, mode>>
Next == Render
Spec == Init /\ [][Next]_vars

\* spec-level theorems over the enumerated space
RoundTrip == out.done => out.dec = out.v
SizeExact == out.done => Whole(out.enc).ok /\ Whole(out.enc).s = Len(out.enc) /\ Whole(out.enc).t = CodeOf(ty)
VariantsAgree == out.done => out.decLarge = out.v /\ out.decSpare = out.v /\ out.decPadded = out.v /\ out.decLong = out.v /\ out.decKids = out.v

Emit == out.done => PrintT("CASE " \o ToJson([t |-> ty, mode |-> mode, v |-> out.v, enc |-> out.enc, large |-> out.large, spare |-> out.spare, padded |-> out.padded, long |-> out.long, kids |-> out.kids]))
=============================================================================
