------------------------------- MODULE Big -------------------------------
(***************************************************************************)
(* Natural numbers wider than TLC's 32-bit integers, as big-endian         *)
(* sequences of base-256 digits WITHOUT leading zeros (zero is <<>>).      *)
(* A big-endian wire field is therefore already a Big after Norm.          *)
(* Used for every quantity of the system that may reach 2^31: u32/u64      *)
(* durations, time scales, start times, chunk offsets, box sizes.          *)
(***************************************************************************)
EXTENDS Naturals, Integers, Sequences

RECURSIVE Norm(_)
Norm(s) == IF s = <<>> THEN <<>> ELSE IF s[1] = 0 THEN Norm(Tail(s)) ELSE s

IsBig(a) == a = <<>> \/ (a[1] # 0 /\ \A i \in 1..Len(a) : a[i] \in 0..255)

BZero == <<>>

RECURSIVE FromInt(_)
FromInt(n) == IF n = 0 THEN <<>> ELSE Append(FromInt(n \div 256), n % 256)

\* fits a non-negative TLC integer (< 2^31)
IsSmall(a) == Len(a) < 4 \/ (Len(a) = 4 /\ a[1] < 128)

RECURSIVE ToIntR(_, _, _)
ToIntR(a, i, acc) == IF i > Len(a) THEN acc ELSE ToIntR(a, i + 1, acc * 256 + a[i])
ToInt(a) == ToIntR(a, 1, 0)      \* only for IsSmall(a)

Pad(a, n) == [i \in 1..n |-> IF i <= n - Len(a) THEN 0 ELSE a[i - (n - Len(a))]]

BMaxLen(a, b) == IF Len(a) >= Len(b) THEN Len(a) ELSE Len(b)

\* -1, 0, 1
RECURSIVE CmpR(_, _, _)
CmpR(a, b, i) == IF i > Len(a) THEN 0
                 ELSE IF a[i] < b[i] THEN -1 ELSE IF a[i] > b[i] THEN 1 ELSE CmpR(a, b, i + 1)
Cmp(a, b) == IF Len(a) < Len(b) THEN -1 ELSE IF Len(a) > Len(b) THEN 1 ELSE CmpR(a, b, 1)
Leq(a, b) == Cmp(a, b) <= 0
Lt(a, b)  == Cmp(a, b) < 0
BMax(a, b) == IF Leq(a, b) THEN b ELSE a

RECURSIVE AddR(_, _, _, _, _)
AddR(x, y, i, c, acc) ==
  IF i = 0 THEN (IF c = 0 THEN acc ELSE <<c>> \o acc)
  ELSE LET s == x[i] + y[i] + c IN AddR(x, y, i - 1, s \div 256, <<s % 256>> \o acc)
Add(a, b) == LET n == BMaxLen(a, b) IN Norm(AddR(Pad(a, n), Pad(b, n), n, 0, <<>>))

\* a - b for a >= b
RECURSIVE SubR(_, _, _, _, _)
SubR(x, y, i, br, acc) ==
  IF i = 0 THEN acc
  ELSE LET d == x[i] - y[i] - br IN
       IF d >= 0 THEN SubR(x, y, i - 1, 0, <<d>> \o acc)
       ELSE SubR(x, y, i - 1, 1, <<d + 256>> \o acc)
Sub(a, b) == LET n == Len(a) IN Norm(SubR(a, Pad(b, n), n, 0, <<>>))

\* |a - b|
AbsDiff(a, b) == IF Leq(b, a) THEN Sub(a, b) ELSE Sub(b, a)

\* a * d for a small multiplier 0 <= d < 2^22
RECURSIVE MulSmallR(_, _, _, _, _)
MulSmallR(a, d, i, c, acc) ==
  IF i = 0 THEN (IF c = 0 THEN acc ELSE FromInt(c) \o acc)
  ELSE LET s == a[i] * d + c IN MulSmallR(a, d, i - 1, s \div 256, <<s % 256>> \o acc)
MulSmall(a, d) == IF d = 0 \/ a = <<>> THEN <<>> ELSE Norm(MulSmallR(a, d, Len(a), 0, <<>>))

Shl8(a) == IF a = <<>> THEN <<>> ELSE Append(a, 0)

RECURSIVE MulR(_, _, _, _)
MulR(a, b, j, acc) == IF j > Len(b) THEN acc
                      ELSE MulR(a, b, j + 1, Add(Shl8(acc), MulSmall(a, b[j])))
Mul(a, b) == MulR(a, b, 1, <<>>)

\* floor(a / b) for b # 0: schoolbook long division, one base-256 digit at a time
RECURSIVE QDigit(_, _, _, _)
QDigit(b, rem, lo, hi) ==
  IF lo = hi THEN lo
  ELSE LET mid == (lo + hi + 1) \div 2 IN
       IF Leq(MulSmall(b, mid), rem) THEN QDigit(b, rem, mid, hi) ELSE QDigit(b, rem, lo, mid - 1)
RECURSIVE DivR(_, _, _, _, _)
DivR(a, b, i, rem, q) ==
  IF i > Len(a) THEN Norm(q)
  ELSE LET r1 == Norm(Append(rem, a[i]))
           qd == QDigit(b, r1, 0, 255)
       IN DivR(a, b, i + 1, Sub(r1, MulSmall(b, qd)), Append(q, qd))
BigDiv(a, b) == DivR(a, b, 1, <<>>, <<>>)

\* fits an unsigned field of w bytes
Fits(a, w) == Len(a) <= w

\* the w-byte big-endian image (requires Fits(a, w))
ToBE(a, w) == Pad(a, w)

\* sum of a sequence of Bigs
RECURSIVE SumR(_, _, _)
SumR(s, i, acc) == IF i > Len(s) THEN acc ELSE SumR(s, i + 1, Add(acc, s[i]))
Sum(s) == SumR(s, 1, <<>>)
=============================================================================
