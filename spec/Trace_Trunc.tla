---------------------------- MODULE Trace_Trunc ----------------------------
(***************************************************************************)
(* C11: every proper prefix of a valid file.  The `file` event carries the *)
(* complete file (decoded here into its reference samples, as in           *)
(* Trace_Read); each `cut` event reports what the real reader did with the *)
(* prefix of that length: the result of opening it and, if it opened, of   *)
(* reading every sample id of the complete file.                           *)
(*   TruncOK:  open in {ok, err};  a read is an error, or the sample of    *)
(*   the complete file (bytes and timing) -- never other bytes, never      *)
(*   "no such sample", never a panic or a hang (operation budget).         *)
(***************************************************************************)
EXTENDS Reader, Json, IOUtils, TLC, TLCExt

Rec == ndJsonDeserialize(IOEnv.TRACE)
VARIABLES l, run
vars == <<file, l, run>>
TInit == RInit /\ l = 1 /\ run = ""
ev == Rec[l]
IsEvent(e) == l <= Len(Rec) /\ ev.e = e /\ l' = l + 1
Fail(what, detail) == PrintT(ToJson(<<"FAIL", l, run, "C11", what, detail>>))
Note(what, detail) == PrintT(ToJson(<<"NOTE", l, run, what, detail>>))
Check(cond, what, detail) == IF cond THEN TRUE ELSE Fail(what, detail)

TReset == IsEvent("reset") /\ run' = ev.id /\ file' = NoFileYet

TFile == /\ IsEvent("file")
         /\ \E f \in {DecodeInput(ev)} :
              /\ Open(f)
              /\ IF f.ok THEN TRUE ELSE Fail("specification cannot decode the complete file", f.why)
         /\ UNCHANGED run

\* the observed read r of sample (t, k) of a prefix against the complete file
ReadOK(r) ==
  \/ r.res \in {"err", "ioerr"}
  \/ /\ r.res = "some"
     /\ HasTrack(file, r.t) /\ Known(file, r.t) /\ r.k \in 1..Count(file, r.t)
     /\ LET s == Sample(file, r.t, r.k) IN
        /\ r.s.len = s.size /\ r.s.start = s.start /\ r.s.dur = s.dur /\ r.s.cts = s.cts
        /\ (s.syncKnown => r.s.sync = s.sync)
        /\ (s.size = 0 \/ (InFile(file, s.off, s.size) /\ (r.s.b = <<>> \/ r.s.b = BytesAt(file, s.off, s.size))
                           /\ (r.s.b # <<>> \/ s.size <= 8 \/ (r.s.head = BytesAt(file, s.off, 8)
                                                              /\ r.s.tail = BytesAt(file, Add(s.off, FromInt(s.size - 8)), 8)))))
  \* a track outside the specification's domain: only totality is judged
  \/ (r.res = "some" /\ HasTrack(file, r.t) /\ ~Known(file, r.t))

TCut == /\ IsEvent("cut")
        /\ IF ~file.ok THEN TRUE
           ELSE /\ Check(ev.open \in {"ok", "err", "ioerr"}, "opening a prefix panicked", <<ev.at, ev.open, ev.msg>>)
                /\ Check(~ev.budget_hit, "reader did not terminate within the operation budget on a prefix", ev.at)
                /\ Check(\A i \in 1..Len(ev.reads) : ReadOK(ev.reads[i]),
                         "a prefix yields something that is neither an error nor the original sample",
                         <<ev.at, {<<ev.reads[i].t, ev.reads[i].k, ev.reads[i].res>> : i \in {i \in 1..Len(ev.reads) : ~ReadOK(ev.reads[i])}}>>)
        /\ UNCHANGED <<file, run>>

TNext == TReset \/ TFile \/ TCut
TSpec == TInit /\ [][TNext]_vars
Accepted == TLCGet("stats").diameter - 1 = Len(Rec)
            \/ PrintT(ToJson(<<"STUCK", TLCGet("stats").diameter, Len(Rec),
                        IF TLCGet("stats").diameter <= Len(Rec) THEN Rec[TLCGet("stats").diameter].e ELSE "-">>))
=============================================================================
