------------------------------ MODULE Bytes ------------------------------
(***************************************************************************)
(* Byte sequences (Seq(0..255)) and big-endian field access by index.     *)
(* Decoders index into the whole image (b[i]) instead of slicing, which    *)
(* keeps TLC evaluation linear in the image size.                          *)
(***************************************************************************)
EXTENDS Naturals, Integers, Sequences, Big

\* Let(v, F): F applied to the VALUE of v.  TLC passes operator arguments and LET definitions by
\* name and may re-evaluate them at every use; binding through a set comprehension evaluates v
\* exactly once.
Let(v, F(_)) == CHOOSE x \in {F(r) : r \in {v}} : TRUE

Zeros(n) == [i \in 1..n |-> 0]
Fill(n, v) == [i \in 1..n |-> v]

\* big-endian image of a small natural n (< 2^31) in w bytes
BE(n, w) == [i \in 1..w |-> IF w - i >= 4 THEN 0 ELSE (n \div (256 ^ (w - i))) % 256]

\* two's complement image of a small integer (|n| < 2^31) in w bytes (w <= 4: n must fit)
BEs(n, w) == IF n >= 0 THEN BE(n, w)
             ELSE IF w = 1 THEN <<256 + n>>
             ELSE IF w = 2 THEN BE(65536 + n, 2)
             ELSE \* w = 4 : 2^32 + n, computed bytewise on -(n+1)
                  LET m == -(n + 1) IN [i \in 1..w |-> 255 - ((m \div (256 ^ (w - i))) % 256)]

\* slice [i, i+w) of b (1-based i)
Slice(b, i, w) == [k \in 1..w |-> b[i + k - 1]]

InRange(b, i, w) == i >= 1 /\ w >= 0 /\ i + w - 1 <= Len(b)

\* the field as a Big (always defined)
NatAt(b, i, w) == Norm(Slice(b, i, w))

\* the field fits a TLC integer
SmallAt(b, i, w) == IsSmall(NatAt(b, i, w))

\* the field as a TLC integer (requires SmallAt)
RECURSIVE IntAtR(_, _, _, _)
IntAtR(b, i, w, acc) == IF w = 0 THEN acc ELSE IntAtR(b, i + 1, w - 1, acc * 256 + b[i])
IntAt(b, i, w) == IntAtR(b, i, w, 0)

U8(b, i)  == b[i]
U16(b, i) == b[i] * 256 + b[i + 1]
U24(b, i) == (b[i] * 256 + b[i + 1]) * 256 + b[i + 2]
\* u32 as TLC int; -1 when it does not fit (>= 2^31)
U32(b, i) == IF b[i] >= 128 THEN -1 ELSE IntAt(b, i, 4)

\* signed 32-bit two's complement (always fits)
S32(b, i) == IF b[i] < 128 THEN IntAt(b, i, 4)
             ELSE -( ((255 - b[i]) * 256 + (255 - b[i + 1])) * 65536
                    + (255 - b[i + 2]) * 256 + (255 - b[i + 3]) ) - 1
S16(b, i) == IF b[i] < 128 THEN U16(b, i) ELSE U16(b, i) - 65536
S8(b, i)  == IF b[i] < 128 THEN b[i] ELSE b[i] - 256

\* four-character code as a 4-byte sequence
CC(b, i) == Slice(b, i, 4)

\* ASCII codes of the box types (as byte sequences)
Str4(a, b_, c, d) == <<a, b_, c, d>>

RECURSIVE FlatR(_, _, _)
FlatR(ss, i, acc) == IF i > Len(ss) THEN acc ELSE FlatR(ss, i + 1, acc \o ss[i])
Flat(ss) == FlatR(ss, 1, <<>>)

\* bit helpers on small naturals
BitAnd1(n, k) == (n \div (2 ^ k)) % 2          \* bit k of n
Bits(n, lo, cnt) == (n \div (2 ^ lo)) % (2 ^ cnt)
=============================================================================
