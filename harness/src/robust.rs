// C06 / C07 / C08: adversarial inputs through every read-side entry point, with
//   - catch_unwind (a panic is data),
//   - a budgeted stream (64*n + 4096 operations; exceeding it makes the stream fail, which turns
//     a non-terminating parse into a terminating, observable event),
//   - the counting allocator (peak live bytes, largest single request).
// One `block` event per <= 400 executions carries parallel arrays; anomalies also get their own
// `case` event.  The verdicts (status in {ok, err}; work and memory bounds) are Trace_Total's.
use crate::alloc;
use crate::mux::Out;
use crate::streams::{Ctl, Sparse};
use crate::util::*;
use mp4::*;
use serde_json::{json, Value};
use std::io::{Read, Seek};
use std::sync::atomic::{AtomicU64, Ordering};
use std::sync::{Mutex, OnceLock};
use std::time::Instant;

pub const SAT: u64 = 0x7fff_ffff;

// Watchdog for executions that never return (a pure CPU loop makes no stream call, so the
// operation budget cannot end it): the execution in progress is published here; a background
// thread writes it as a `case` event to <trace>.hang and ends the process with code 97 once it
// has been running for HANG_MS.
pub const HANG_MS: u64 = 15_000;
pub static CUR_START: AtomicU64 = AtomicU64::new(0); // ms since EPOCH0 + 1; 0 = idle
pub static CUR: Mutex<Option<(u64, &'static str, Value, Vec<u8>)>> = Mutex::new(None);
static EPOCH0: OnceLock<Instant> = OnceLock::new();
fn now_ms() -> u64 {
    EPOCH0.get_or_init(Instant::now).elapsed().as_millis() as u64 + 1
}
pub fn arm() {
    CUR_START.store(now_ms(), Ordering::SeqCst);
}
pub fn disarm() {
    CUR_START.store(0, Ordering::SeqCst);
}
pub fn start_watchdog(hang_path: String) {
    now_ms();
    std::thread::spawn(move || loop {
        std::thread::sleep(std::time::Duration::from_millis(250));
        let st = CUR_START.load(Ordering::SeqCst);
        if st != 0 && now_ms().saturating_sub(st) > HANG_MS {
            let ms = now_ms() - st;
            if let Some((base, mode, what, input)) = CUR.lock().ok().and_then(|g| g.clone()) {
                // what the execution had requested from the allocator when it was ended
                let (peak, maxreq, _) = alloc::window();
                let ev = json!({"e":"case","base":base,"mode":mode,"what":what,"n":input.len(),"status":"hang","site":"",
                    "ops":0,"bytes":0,"budget_hit":false,"slow_ms":ms.min(SAT),"peak":peak.min(SAT),"maxreq":maxreq.min(SAT),"input":bytes_val(&input),
                    "digest":digest(&input).iter().map(|x| format!("{:02x}", x)).collect::<String>()});
                let _ = std::fs::write(&hang_path, serde_json::to_vec(&ev).unwrap_or_default());
            }
            std::process::exit(97);
        }
    });
}

pub struct Obs {
    pub status: &'static str, // ok | err | panic
    pub site: String,
    pub n: u64,
    pub ops: u64,
    pub bytes: u64,
    pub budget_hit: bool,
    pub peak: u64,
    pub maxreq: u64,
    pub ms: u64,
}

fn touch<T: std::fmt::Debug>(x: T) {
    std::hint::black_box(format!("{:?}", x).len());
}

/// every read-side accessor; returns (panic message if any, largest sample size read, extra
/// bytes a sample read may legitimately move)
fn exercise<R: Read + Seek>(r: &mut Mp4Reader<R>) -> Option<String> {
    let mut first_panic: Option<String> = None;
    macro_rules! g {
        ($e:expr) => {
            if let Err(p) = guarded(|| touch($e)) {
                if first_panic.is_none() {
                    first_panic = Some(p);
                }
            }
        };
    }
    g!(r.size());
    g!(r.major_brand());
    g!(r.minor_version());
    g!(r.compatible_brands().len());
    g!(r.duration());
    g!(r.timescale());
    g!(r.is_fragmented());
    g!(r.ftyp.to_json().map(|s| s.len()));
    g!(r.ftyp.summary().map(|s| s.len()));
    g!(r.moov.to_json().map(|s| s.len()));
    g!(r.moov.summary().map(|s| s.len()));
    g!(r.moov.mvhd.to_json().map(|s| s.len()));
    g!(r.moov.mvhd.summary().map(|s| s.len()));
    g!(r.moov.udta.as_ref().map(|u| (u.to_json().map(|s| s.len()), u.summary().map(|s| s.len()))));
    g!(r.moov.mvex.as_ref().map(|u| (u.to_json().map(|s| s.len()), u.summary().map(|s| s.len()))));
    g!(r.moov.meta.as_ref().map(|u| (u.to_json().map(|s| s.len()), u.summary().map(|s| s.len()))));
    for i in 0..r.moofs.len() {
        g!(r.moofs[i].to_json().map(|s| s.len()));
        g!(r.moofs[i].summary().map(|s| s.len()));
        for t in r.moofs[i].trafs.iter() {
            g!(t.to_json().map(|s| s.len()));
            g!(t.tfhd.summary().map(|s| s.len()));
            g!(t.tfdt.as_ref().map(|x| x.summary().map(|s| s.len())));
            g!(t.trun.as_ref().map(|x| (x.summary().map(|s| s.len()), x.to_json().map(|s| s.len()))));
        }
    }
    for i in 0..r.emsgs.len() {
        g!(r.emsgs[i].to_json().map(|s| s.len()));
        g!(r.emsgs[i].summary().map(|s| s.len()));
    }
    {
        let md = guarded(|| {
            let m = r.metadata();
            (m.title().map(|c| c.len()), m.year(), m.poster().map(|p| p.len()), m.summary().map(|c| c.len()))
        });
        if let Err(p) = md {
            first_panic.get_or_insert(p);
        }
    }
    let mut ids: Vec<u32> = r.tracks().keys().copied().collect();
    ids.sort();
    ids.truncate(6);
    for &t in ids.iter() {
        {
            let tr = &r.tracks()[&t];
            g!(tr.track_id());
            g!(tr.track_type().ok());
            g!(tr.media_type().ok());
            g!(tr.box_type().ok());
            g!(tr.width());
            g!(tr.height());
            g!(tr.frame_rate());
            g!(tr.sample_freq_index().ok());
            g!(tr.channel_config().ok());
            g!(tr.language().len());
            g!(tr.timescale());
            g!(tr.duration());
            g!(tr.bitrate());
            g!(tr.sample_count());
            g!(tr.video_profile().ok());
            g!(tr.sequence_parameter_set().ok().map(|x| x.len()));
            g!(tr.picture_parameter_set().ok().map(|x| x.len()));
            g!(tr.audio_profile().ok());
            g!(tr.trak.to_json().map(|s| s.len()));
            g!(tr.trak.tkhd.summary().map(|s| s.len()));
            g!(tr.trak.mdia.mdhd.summary().map(|s| s.len()));
            g!(tr.trak.mdia.hdlr.summary().map(|s| s.len()));
            g!(tr.trak.mdia.minf.stbl.stsd.to_json().map(|s| s.len()));
            g!(tr.trak.mdia.minf.stbl.stts.summary().map(|s| s.len()));
            g!(tr.trak.mdia.minf.stbl.stsc.summary().map(|s| s.len()));
            g!(tr.trak.mdia.minf.stbl.stsz.summary().map(|s| s.len()));
            g!(tr.trak.edts.as_ref().map(|e| e.to_json().map(|s| s.len())));
        }
        let n = guarded(|| r.sample_count(t)).ok().and_then(|x| x.ok()).unwrap_or(0);
        let mut ks: Vec<u32> = vec![0, 1, 2, 3, n.wrapping_sub(1), n, n.wrapping_add(1), u32::MAX];
        ks.dedup();
        for k in ks {
            g!(r.sample_offset(t, k).ok());
            g!(r.read_sample(t, k).ok().map(|s| s.map(|s| s.bytes.len())));
        }
    }
    g!(r.sample_count(0).ok());
    g!(r.read_sample(0, 1).ok().map(|s| s.is_some()));
    first_panic
}

/// mode "open": read_header(bytes); mode "frag": read_fragment_header(bytes) against `init`
pub fn execute(bytes: &[u8], init: Option<&Mp4Reader<Sparse>>) -> Obs {
    let n = bytes.len() as u64;
    let data = Sparse::from_vec(bytes.to_vec());
    alloc::reset();
    let mut s = Ctl::new(data);
    s.budget = 64 * n + 4096;
    let (ops, moved) = (s.ops_shared.clone(), s.bytes_shared.clone());
    let t0 = std::time::Instant::now();
    let mut status = "ok";
    let mut site = String::new();
    let mut budget_hit = false;
    let res = match init {
        None => guarded(|| Mp4Reader::read_header(s, n)).map(|r| r.map(|mut rd| exercise(&mut rd))),
        Some(base) => guarded(|| base.read_fragment_header(s, n)).map(|r| r.map(|mut rd| exercise(&mut rd))),
    };
    match res {
        Ok(Ok(None)) => {}
        Ok(Ok(Some(p))) => {
            status = "panic";
            site = p;
        }
        Ok(Err(e)) => {
            status = "err";
            if e.to_string().contains("operation budget exhausted") {
                budget_hit = true;
            }
        }
        Err(p) => {
            status = "panic";
            site = p;
        }
    }
    let (peak, maxreq, _total) = alloc::window();
    let o = ops.get();
    if o > 64 * n + 4096 {
        budget_hit = true;
    }
    let ms = t0.elapsed().as_millis() as u64;
    Obs { status, site, n, ops: o, bytes: moved.get(), budget_hit, peak, maxreq, ms }
}

pub struct Block<'a, 'b> {
    pub out: &'a mut Out<'b>,
    pub base: u64,
    pub mode: &'static str,
    n: Vec<u64>,
    ops: Vec<u64>,
    peak: Vec<u64>,
    maxreq: Vec<u64>,
    bytes: Vec<u64>,
    st: Vec<u8>,
    pub total: u64,
    pub panics: u64,
    pub last_input: Vec<u8>,
    detailed: u64,
}
impl<'a, 'b> Block<'a, 'b> {
    pub fn new(out: &'a mut Out<'b>, base: u64, mode: &'static str) -> Self {
        Block { out, base, mode, n: vec![], ops: vec![], peak: vec![], maxreq: vec![], bytes: vec![], st: vec![], total: 0, panics: 0, last_input: vec![], detailed: 0 }
    }
    pub fn add(&mut self, o: Obs, what: Value) {
        let slow = o.ms > 3000;
        let anomalous = o.status == "panic" || o.budget_hit || slow || o.ops > 32 * o.n + 4096 || o.bytes > 64 * o.n + (64 << 10)
            || o.maxreq > 16 * o.n + (16 << 20) || o.peak > 64 * o.n + (16 << 20);
        if o.status == "panic" {
            self.panics += 1;
        }
        // the block arrays carry every execution; detailed case events (with the input, for
        // replay) are capped so that a tree that fails everywhere does not produce a huge trace
        if anomalous && self.detailed < 60 {
            self.detailed += 1;
            self.out.ev(json!({"e":"case","base":self.base,"mode":self.mode,"what":what,"n":o.n,"status":o.status,"site":o.site,
                "ops":o.ops.min(SAT),"bytes":o.bytes.min(SAT),"budget_hit":o.budget_hit,"slow_ms":if slow { o.ms.min(SAT) } else { 0 },
                "peak":o.peak.min(SAT),"maxreq":o.maxreq.min(SAT),"input":bytes_val(&self.last_input)}));
        }
        self.n.push(o.n.min(SAT));
        self.ops.push(o.ops.min(SAT));
        self.peak.push(o.peak.min(SAT));
        self.maxreq.push(o.maxreq.min(SAT));
        self.bytes.push(o.bytes.min(SAT));
        self.st.push(match o.status { "ok" => 0, "err" => 1, _ => 2 } + if o.budget_hit { 4 } else { 0 });
        self.total += 1;
        if self.n.len() >= 400 {
            self.flush();
        }
    }
    pub fn flush(&mut self) {
        if self.n.is_empty() {
            return;
        }
        self.out.ev(json!({"e":"block","base":self.base,"mode":self.mode,"n":self.n,"ops":self.ops,"peak":self.peak,
            "maxreq":self.maxreq,"bytes":self.bytes,"st":self.st}));
        self.n.clear();
        self.ops.clear();
        self.peak.clear();
        self.maxreq.clear();
        self.bytes.clear();
        self.st.clear();
    }
}

pub fn boundary_values(width: usize, len: u64) -> Vec<u64> {
    let max = if width >= 8 { u64::MAX } else { (1u64 << (8 * width)) - 1 };
    let mut v = vec![0u64, 1, 2, 7, 8, 9, 15, 16, 17, 255, 256, len.saturating_sub(1), len, len + 1,
        0x7f, 0x80, 0x7fff, 0x8000, 0xffff, 0x7fff_ffff, 0x8000_0000, 0xffff_fffe, 0xffff_ffff, 0x1_0000_0000, max / 2, max / 2 + 1, max - 1, max];
    v.retain(|&x| x <= max);
    v.sort();
    v.dedup();
    v
}

fn put(b: &mut [u8], off: usize, width: usize, val: u64) {
    let be = val.to_be_bytes();
    b[off..off + width].copy_from_slice(&be[8 - width..]);
}

/// plan: {"single": {"widths":[..], "stride": s}, "pairs": n, "havoc": n, "fields": [[off,w]..], "seed": ..}
pub fn run_base(idx: u64, base: &Value, out: &mut Out) -> (u64, u64, [u64; 4]) {
    let bytes = from_bytes(&base["file"]);
    let init_bytes: Option<Vec<u8>> = if base["init"].is_array() { Some(from_bytes(&base["init"])) } else { None };
    let init_reader = init_bytes.as_ref().and_then(|ib| {
        guarded(|| Mp4Reader::read_header(Sparse::from_vec(ib.clone()), ib.len() as u64)).ok().and_then(|r| r.ok())
    });
    let mode: &'static str = if init_reader.is_some() { "frag" } else { "open" };
    let plan = &base["plan"];
    let mut rng = Rng::new(plan["seed"].as_u64().unwrap_or(1) ^ (idx << 32));
    out.ev(json!({"e":"reset","id":format!("base-{}", idx),"kind":base["kind"],"len":bytes.len(),"mode":mode}));
    let mut blk = Block::new(out, idx, mode);
    let each = std::env::var("MP4V_EACH").is_ok();
    // inputs that made an earlier worker die (digests, comma separated): reported by the driver as
    // crash events, not executed again
    let skip: Vec<String> = std::env::var("MP4V_SKIP").map(|s| s.split(',').map(|x| x.to_string()).collect()).unwrap_or_default();
    let run = |b: &[u8]| {
        if each {
            eprintln!("EACH {}", digest(b).iter().map(|x| format!("{:02x}", x)).collect::<String>());
            // the input about to be executed, for the replay file of a worker crash
            if let Ok(p) = std::env::var("MP4V_CUR") {
                let _ = std::fs::write(p, serde_json::to_vec(&bytes_val(b)).unwrap_or_default());
            }
        }
        CUR_START.store(now_ms(), Ordering::SeqCst);
        let mut o = execute(b, init_reader.as_ref());
        // wall-clock guard: only an execution that is slow three times in a row counts (a loaded
        // machine must not raise an alarm)
        if o.ms > 3000 {
            for _ in 0..2 {
                let again = execute(b, init_reader.as_ref());
                o.ms = o.ms.min(again.ms);
            }
        }
        CUR_START.store(0, Ordering::SeqCst);
        o
    };
    let go = |blk: &mut Block, b: &[u8], what: Value| {
        if !skip.is_empty() && skip.contains(&digest(b).iter().map(|x| format!("{:02x}", x)).collect::<String>()) {
            return;
        }
        if let Ok(mut g) = CUR.lock() {
            *g = Some((idx, mode, what.clone(), b.to_vec()));
        }
        let o = run(b);
        blk.last_input = b.to_vec();
        blk.add(o, what);
    };
    // the unmodified input
    go(&mut blk, &bytes, json!("unmodified"));
    let len = bytes.len();
    let mut phases = [0u64; 4];
    let mark = |blk: &Block, prev: u64| blk.total - prev;
    let mut prev = blk.total;
    // (1) every offset x width x boundary value
    let stride = plan["single"]["stride"].as_u64().unwrap_or(1).max(1) as usize;
    let lo = plan["region"][0].as_u64().unwrap_or(0) as usize;
    let hi = (plan["region"][1].as_u64().unwrap_or(len as u64) as usize).min(len);
    for w in plan["single"]["widths"].as_array().map(|a| a.iter().map(|x| x.as_u64().unwrap_or(4) as usize).collect::<Vec<_>>()).unwrap_or_default() {
        let vals = boundary_values(w, len as u64);
        let mut off = lo;
        while off + w <= hi {
            for &v in vals.iter() {
                let mut b = bytes.clone();
                put(&mut b, off, w, v);
                if b == bytes {
                    continue;
                }
                go(&mut blk, &b, json!([[off, w, big(v)]]));
            }
            off += stride;
        }
    }
    phases[0] = mark(&blk, prev);
    prev = blk.total;
    // (2) every field of the specification's field map (at its own width, 64-bit fields included)
    //     x boundary values, then seeded pairs of fields
    let fields: Vec<(usize, usize)> = base["fields"].as_array().map(|a| a.iter().map(|f| (f[0].as_u64().unwrap_or(0) as usize, f[1].as_u64().unwrap_or(4) as usize)).collect()).unwrap_or_default();
    if plan["field_singles"].as_bool().unwrap_or(false) {
        for &(o, w) in fields.iter() {
            if w == 0 || w > 8 || o + w > len {
                continue;
            }
            for &v in boundary_values(w, len as u64).iter() {
                let mut b = bytes.clone();
                put(&mut b, o, w, v);
                if b == bytes {
                    continue;
                }
                go(&mut blk, &b, json!([[o, w, big(v)]]));
            }
        }
    }
    // (2b) inside every leaf box: the version/flags word (each single flag bit, none, all) together
    //      with each other word of the same box set to a huge value -- a flag decides how a count
    //      is checked against the box size
    if plan["field_singles"].as_bool().unwrap_or(false) {
        let roles: Vec<(usize, usize, u64, u64)> = base["fields"].as_array().map(|a| a.iter()
            .map(|f| (f[0].as_u64().unwrap_or(0) as usize, f[1].as_u64().unwrap_or(4) as usize, f[2].as_u64().unwrap_or(9), f[3].as_u64().unwrap_or(0))).collect()).unwrap_or_default();
        let mut flagvals: Vec<u64> = (0..24).map(|i| 1u64 << i).collect();
        flagvals.extend_from_slice(&[0, 0x00FF_FFFF, 0x0100_0000, 0x0100_0800, 0x0100_0F01]);
        for &(fo, fw, role, bx) in roles.iter() {
            if role != 1 || fw != 4 || fo + 4 > len {
                continue;
            }
            for &(oo, ow, orole, obx) in roles.iter() {
                if obx != bx || orole != 2 || ow != 4 || oo + 4 > len {
                    continue;
                }
                for &fv in flagvals.iter() {
                    for &ov in [0xFFFF_FFFFu64, 0x7FFF_FFFF, 0x1000_0000, 0x0100_0000].iter() {
                        let mut b = bytes.clone();
                        // keep the version byte of the base unless the flag value sets one
                        let keep = if fv >> 24 == 0 { (bytes[fo] as u64) << 24 } else { 0 };
                        put(&mut b, fo, 4, fv | keep);
                        put(&mut b, oo, 4, ov);
                        go(&mut blk, &b, json!([[fo, 4, big(fv | keep)], [oo, 4, big(ov)]]));
                    }
                }
            }
        }
    }
    // (2c) inside one sample table / track fragment: a 64-bit quantity just below 2^64 together with a
    //      32-bit word set to a huge value (a count or a samples-per-chunk that makes an offset
    //      computation overflow only after billions of steps)
    if plan["field_singles"].as_bool().unwrap_or(false) {
        let fs: Vec<(usize, usize, u64, u64)> = base["fields"].as_array().map(|a| a.iter()
            .map(|f| (f[0].as_u64().unwrap_or(0) as usize, f[1].as_u64().unwrap_or(4) as usize, f[2].as_u64().unwrap_or(9), f[4].as_u64().unwrap_or(u64::MAX))).collect()).unwrap_or_default();
        for &(qo, qw, qrole, qg) in fs.iter() {
            if qrole != 3 || qw != 8 || qo + 8 > len || qg == u64::MAX {
                continue;
            }
            for &(wo, ww, wrole, wg) in fs.iter() {
                if wg != qg || wrole != 2 || ww != 4 || wo + 4 > len || (wo < qo + 8 && qo < wo + 4) {
                    continue;
                }
                for &qv in [u64::MAX - 0xFFFF_FFFF + 3, u64::MAX - 0x7FFF_FFFF, u64::MAX - 0xFFFF].iter() {
                    for &wv in [0xFFFF_FFFFu64, 0x7FFF_FFFF].iter() {
                        let mut b = bytes.clone();
                        put(&mut b, qo, 8, qv);
                        put(&mut b, wo, 4, wv);
                        go(&mut blk, &b, json!([[qo, 8, big(qv)], [wo, 4, big(wv)]]));
                    }
                }
            }
        }
    }
    phases[1] = mark(&blk, prev);
    prev = blk.total;
    let npairs = plan["pairs"].as_u64().unwrap_or(0);
    if fields.len() >= 2 {
        for _ in 0..npairs {
            let (o1, w1) = *rng.pick(&fields);
            let (o2, w2) = *rng.pick(&fields);
            if o1 == o2 || o1 + w1 > len || o2 + w2 > len {
                continue;
            }
            let v1 = *rng.pick(&boundary_values(w1, len as u64));
            let v2 = *rng.pick(&boundary_values(w2, len as u64));
            let mut b = bytes.clone();
            put(&mut b, o1, w1, v1);
            put(&mut b, o2, w2, v2);
            go(&mut blk, &b, json!([[o1, w1, big(v1)], [o2, w2, big(v2)]]));
        }
    }
    phases[2] = mark(&blk, prev);
    prev = blk.total;
    // (3) byte-level havoc: flips, splices, truncations, duplicated regions, size arithmetic
    for _ in 0..plan["havoc"].as_u64().unwrap_or(0) {
        let mut b = bytes.clone();
        let mut what = Vec::new();
        for _ in 0..rng.range(1, 4) {
            if b.is_empty() {
                break;
            }
            match rng.below(7) {
                0 => {
                    let o = rng.below(b.len() as u64) as usize;
                    b[o] ^= 1 << rng.below(8);
                    what.push(json!(["flip", o]));
                }
                1 => {
                    let o = rng.below(b.len() as u64) as usize;
                    b[o] = rng.below(256) as u8;
                    what.push(json!(["byte", o]));
                }
                2 => {
                    let o = rng.below(b.len() as u64) as usize;
                    b.truncate(o);
                    what.push(json!(["truncate", o]));
                }
                3 => {
                    let o = rng.below(b.len() as u64) as usize;
                    let l = rng.range(1, 64) as usize;
                    let e = (o + l).min(b.len());
                    let seg: Vec<u8> = b[o..e].to_vec();
                    let at = rng.below(b.len() as u64 + 1) as usize;
                    b.splice(at..at, seg);
                    what.push(json!(["dup", o, l, at]));
                }
                4 => {
                    let o = rng.below(b.len() as u64) as usize;
                    let l = rng.range(1, 64) as usize;
                    let e = (o + l).min(b.len());
                    b.drain(o..e);
                    what.push(json!(["cut", o, l]));
                }
                5 => {
                    // arithmetic on a 32-bit word
                    if b.len() >= 4 {
                        let o = rng.below(b.len() as u64 - 3) as usize;
                        let v = u32::from_be_bytes([b[o], b[o + 1], b[o + 2], b[o + 3]]);
                        let d = *rng.pick(&[1u32, 4, 8, 16, 0x100, 0x10000]);
                        let nv = if rng.chance(1, 2) { v.wrapping_add(d) } else { v.wrapping_sub(d) };
                        b[o..o + 4].copy_from_slice(&nv.to_be_bytes());
                        what.push(json!(["arith", o]));
                    }
                }
                _ => {
                    let o = rng.below(b.len() as u64) as usize;
                    let l = rng.range(1, 16) as usize;
                    let e = (o + l).min(b.len());
                    let fill = *rng.pick(&[0u8, 0xff, 0x80, 0x01]);
                    for x in &mut b[o..e] {
                        *x = fill;
                    }
                    what.push(json!(["fill", o, l, fill]));
                }
            }
        }
        go(&mut blk, &b, json!(what));
    }
    phases[3] = mark(&blk, prev);
    blk.flush();
    (blk.total, blk.panics, phases)
}
