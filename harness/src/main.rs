mod alloc;
mod amplify;
mod build;
mod dbg;
mod domain;
mod fault;
mod mux;
mod read;
mod robust;
mod tables;
mod trunc;
mod uniform;
mod streams;
mod util;
mod wire;

use serde_json::Value;

#[global_allocator]
static GLOBAL: alloc::Counting = alloc::Counting;
use std::fs::File;
use std::io::{BufRead, BufReader, BufWriter, Write};

fn usage() -> ! {
    eprintln!("usage: mp4v <cmd> ...\n  mux-gen <seed> <n> <cases.ndjson>\n  mux-run <cases.ndjson> <trace.ndjson>");
    std::process::exit(2)
}

fn read_cases(path: &str) -> Vec<Value> {
    let f = BufReader::new(File::open(path).expect("open cases"));
    f.lines()
        .map(|l| l.unwrap())
        .filter(|l| !l.trim().is_empty())
        .map(|l| serde_json::from_str(&l).expect("case json"))
        .collect()
}

fn main() {
    util::install_panic_hook();
    let a: Vec<String> = std::env::args().collect();
    if a.len() < 2 {
        usage();
    }
    match a[1].as_str() {
        "mux-gen" => {
            let seed: u64 = a[2].parse().unwrap();
            let n: u64 = a[3].parse().unwrap();
            let mut w = BufWriter::new(File::create(&a[4]).unwrap());
            for i in 0..n {
                serde_json::to_writer(&mut w, &mux::random_case(seed, i)).unwrap();
                w.write_all(b"\n").unwrap();
            }
        }
        "mux-run" => {
            let cases = read_cases(&a[2]);
            let mut w = BufWriter::new(File::create(&a[3]).unwrap());
            let mut out = mux::Out { w: &mut w, events: 0 };
            for c in cases.iter() {
                mux::run_case(c, &mut out);
            }
            let n = out.events;
            drop(out);
            w.flush().unwrap();
            println!("{{\"cases\":{},\"events\":{}}}", cases.len(), n);
        }
        "wire-run" => {
            let cases = read_cases(&a[2]);
            let mut w = BufWriter::new(File::create(&a[3]).unwrap());
            let mut out = mux::Out { w: &mut w, events: 0 };
            out.ev(serde_json::json!({"e":"reset","id":"wire"}));
            for (i, c) in cases.iter().enumerate() {
                wire::run_case(c, i as u64, &mut out);
            }
            let n = out.events;
            drop(out);
            w.flush().unwrap();
            println!("{{\"cases\":{},\"events\":{}}}", cases.len(), n);
        }
        "domain-run" => {
            // domain-run <tables.json> <trace.ndjson> <exhaustive:0|1>
            let tables: Value = serde_json::from_reader(BufReader::new(File::open(&a[2]).unwrap())).unwrap();
            let mut w = BufWriter::new(File::create(&a[3]).unwrap());
            let mut out = mux::Out { w: &mut w, events: 0 };
            domain::run(&tables, a.get(4).map(|x| x == "1").unwrap_or(false), &mut out);
            let n = out.events;
            drop(out);
            w.flush().unwrap();
            println!("{{\"cases\":1,\"events\":{}}}", n);
        }
        "robust-run" => {
            // robust-run <bases.ndjson> <trace.ndjson> [first-base]
            let bases = read_cases(&a[2]);
            robust::start_watchdog(format!("{}.hang", a[3]));
            let mut w = BufWriter::new(File::create(&a[3]).unwrap());
            let mut out = mux::Out { w: &mut w, events: 0 };
            let (mut total, mut panics, mut phases) = (0u64, 0u64, [0u64; 4]);
            for (i, b) in bases.iter().enumerate() {
                let (t, p, ph) = robust::run_base(i as u64, b, &mut out);
                total += t;
                panics += p;
                for k in 0..4 {
                    phases[k] += ph[k];
                }
            }
            let n = out.events;
            drop(out);
            w.flush().unwrap();
            println!("{{\"cases\":{},\"events\":{},\"panics\":{},\"phases\":[{},{},{},{}]}}", total, n, panics, phases[0], phases[1], phases[2], phases[3]);
        }
        "amplify-run" => {
            // amplify-run <trace.ndjson> <T,K,avc|hevc> [...]
            robust::start_watchdog(format!("{}.hang", a[2]));
            let mut w = BufWriter::new(File::create(&a[2]).unwrap());
            let mut out = mux::Out { w: &mut w, events: 0 };
            for (i, tk) in a[3..].iter().enumerate() {
                let parts: Vec<&str> = tk.split(',').collect();
                let t = parts.first().and_then(|x| x.parse::<u32>().ok()).unwrap_or(1);
                let k = parts.get(1).and_then(|x| x.parse::<u32>().ok()).unwrap_or(1);
                amplify::run(t, k, parts.get(2).copied().unwrap_or("hevc"), i as u64, &mut out);
            }
            let n = out.events;
            drop(out);
            w.flush().unwrap();
            println!("{{\"events\":{}}}", n);
        }
        "fault-run" => {
            let cases = read_cases(&a[2]);
            let mut w = BufWriter::new(File::create(&a[3]).unwrap());
            let mut out = mux::Out { w: &mut w, events: 0 };
            for c in cases.iter() {
                fault::run_case(c, &mut out);
            }
            let n = out.events;
            drop(out);
            w.flush().unwrap();
            println!("{{\"cases\":{},\"events\":{}}}", cases.len(), n);
        }
        "trunc-run" => {
            let cases = read_cases(&a[2]);
            let mut w = BufWriter::new(File::create(&a[3]).unwrap());
            let mut out = mux::Out { w: &mut w, events: 0 };
            for c in cases.iter() {
                trunc::run_case(c, &mut out);
            }
            let n = out.events;
            drop(out);
            w.flush().unwrap();
            println!("{{\"cases\":{},\"events\":{}}}", cases.len(), n);
        }
        "mux-file" => {
            // write the output files of muxing cases: one ndjson line {id, file} per case
            let cases = read_cases(&a[2]);
            let mut w = BufWriter::new(File::create(&a[3]).unwrap());
            for c in cases.iter() {
                if let Some((s, pos, _)) = mux::mux_once(c, None) {
                    let v = serde_json::json!({"id": c["id"], "file": util::bytes_val(&s.read_range(pos, (s.len - pos) as usize))});
                    serde_json::to_writer(&mut w, &v).unwrap();
                    w.write_all(b"\n").unwrap();
                }
            }
        }
        "tables-gen" => {
            let seed: u64 = a[2].parse().unwrap();
            let n: u64 = a[3].parse().unwrap();
            let mut w = BufWriter::new(File::create(&a[4]).unwrap());
            for i in 0..n {
                serde_json::to_writer(&mut w, &tables::random_tables_case(seed, i)).unwrap();
                w.write_all(b"\n").unwrap();
            }
        }
        "uniform-run" => {
            // uniform-run <cases.ndjson> <trace.ndjson>
            let cases = read_cases(&a[2]);
            let mut w = BufWriter::new(File::create(&a[3]).unwrap());
            let mut out = mux::Out { w: &mut w, events: 0 };
            for c in cases.iter() {
                uniform::run_case(c, &mut out);
            }
            let n = out.events;
            drop(out);
            w.flush().unwrap();
            println!("{{\"cases\":{},\"events\":{}}}", cases.len(), n);
        }
        "read-run" => {
            let cases = read_cases(&a[2]);
            let mut w = BufWriter::new(File::create(&a[3]).unwrap());
            let mut out = mux::Out { w: &mut w, events: 0 };
            for c in cases.iter() {
                read::run_case(c, &mut out);
            }
            let n = out.events;
            drop(out);
            w.flush().unwrap();
            println!("{{\"cases\":{},\"events\":{}}}", cases.len(), n);
        }
        _ => usage(),
    }
}

#[cfg(test)]
mod t {
    #[test]
    fn dbg_parse() {
        let t = mp4::TrakBox::default();
        let v = crate::dbg::parse(&format!("{:?}", t));
        println!("{}", serde_json::to_string(&v).unwrap());
        let m = mp4::MetaBox::default();
        println!("{}", serde_json::to_string(&crate::dbg::parse(&format!("{:?}", m))).unwrap());
        println!("{:?}", m);
    }
}
