// C07 / C08, amplification family: a movie of T HEVC tracks whose parameter-set record (hvcC)
// declares more arrays than it holds, the last NAL unit inside each record declaring a length
// that reaches to a shared region after the movie header.  If the record reader is not bounded by
// its own box, every track re-reads that region (K x 64 KiB): bytes transferred and memory grow
// with T x K x 64 KiB while the file is only K x 64 KiB long.  A bounded reader rejects the
// record at once.  The file is built with the library's own box writers; one byte per record is
// patched (the array count).  No oracle here: the execution is measured like every other one.
use crate::mux::Out;
use crate::robust;
use mp4::verif::*;
use mp4::*;
use serde_json::json;

fn trak(id: u32, jump: u16, avc: bool) -> TrakBox {
    if avc {
        let mut t = trak(id, jump, false);
        t.mdia.minf.stbl.stsd.hev1 = None;
        let mut avc1 = Avc1Box::default();
        avc1.width = 16;
        avc1.height = 16;
        avc1.avcc.configuration_version = 1;
        avc1.avcc.sequence_parameter_sets = vec![NalUnit { bytes: vec![0x67, 66, 0, 30] }];
        avc1.avcc.picture_parameter_sets = vec![NalUnit { bytes: vec![0x68, 1, 2, 3] }];
        t.mdia.minf.stbl.stsd.avc1 = Some(avc1);
        return t;
    }
    let mut t = TrakBox::default();
    t.tkhd.track_id = id;
    t.tkhd.flags = 3;
    t.mdia.mdhd.timescale = 1000;
    t.mdia.hdlr.handler_type = FourCC::from(*b"vide");
    t.mdia.minf.vmhd = Some(VmhdBox::default());
    let mut hev1 = Hev1Box::default();
    hev1.width = 16;
    hev1.height = 16;
    hev1.hvcc.configuration_version = 1;
    hev1.hvcc.arrays = vec![HvcCArray {
        completeness: true,
        nal_unit_type: 32,
        nalus: vec![HvcCArrayNalu { size: jump, data: vec![0x40, 1, 2, 3] }],
    }];
    t.mdia.minf.stbl.stsd.hev1 = Some(hev1);
    t.mdia.minf.stbl.stco = Some(StcoBox::default());
    t
}

fn render(tn: u32, jumps: &[u16], avc: bool) -> (Vec<u8>, usize) {
    let mut out = Vec::new();
    let ftyp = FtypBox { major_brand: FourCC::from(*b"isom"), minor_version: 0, compatible_brands: vec![FourCC::from(*b"isom")] };
    ftyp.write_box(&mut out).unwrap();
    let mut moov = MoovBox::default();
    moov.mvhd.timescale = 1000;
    moov.mvhd.next_track_id = tn + 1;
    for i in 0..tn {
        moov.traks.push(trak(i + 1, jumps.get(i as usize).copied().unwrap_or(4), avc));
    }
    moov.write_box(&mut out).unwrap();
    let end = out.len();
    (out, end)
}

pub fn build(tn: u32, k: u32, avc: bool) -> Vec<u8> {
    let (first, moov_end) = render(tn, &[], avc);
    let tag: &[u8; 4] = if avc { b"avcC" } else { b"hvcC" };
    let idx: Vec<usize> = (0..first.len().saturating_sub(4)).filter(|&i| &first[i..i + 4] == tag).collect();
    let tail_start = moov_end + 8;
    let mut file;
    if avc {
        // avcC payload p = i + 4: 5 fixed bytes, SPS count, SPS (2 + 4), PPS count at p + 12, PPS length at
        // p + 13, PPS data at p + 15.  Patched: the PPS count and the length of the one PPS in the box.
        file = first;
        for &i in idx.iter() {
            let p = i + 4;
            file[p + 12] = (1 + k).min(255) as u8;
            let j = (tail_start - (p + 15)).min(65535) as u16;
            file[p + 13..p + 15].copy_from_slice(&j.to_be_bytes());
        }
    } else {
        // hvcC: "hvcC" + 4 (type) + 22 fixed bytes = array count; the NAL data starts at + 32; the NAL
        // length is a field of the library's struct, only the array count is patched
        let jumps: Vec<u16> = idx.iter().map(|&i| (tail_start - (i + 32)).min(65535) as u16).collect();
        file = render(tn, &jumps, false).0;
        for &i in idx.iter() {
            file[i + 4 + 22] = (1 + k).min(255) as u8;
        }
    }
    // the shared region: a free box holding k arrays of one 65535-byte NAL unit each (hvcC) /
    // k parameter sets of 65535 bytes (avcC)
    let unit: &[u8] = if avc { &[0xFF, 0xFF] } else { &[0x21, 0, 1, 0xFF, 0xFF] };
    let body = k as usize * (unit.len() + 65535);
    file.extend_from_slice(&((8 + body) as u32).to_be_bytes());
    file.extend_from_slice(b"free");
    for _ in 0..k {
        file.extend_from_slice(unit);
        file.extend(std::iter::repeat(0x55u8).take(65535));
    }
    file
}

fn bx(t: &[u8; 4], payload: &[u8]) -> Vec<u8> {
    let mut v = ((payload.len() + 8) as u32).to_be_bytes().to_vec();
    v.extend_from_slice(t);
    v.extend_from_slice(payload);
    v
}
fn ser<T: for<'a> WriteBox<&'a mut Vec<u8>>>(b: &T) -> Vec<u8> {
    let mut v = Vec::new();
    b.write_box(&mut v).unwrap();
    v
}

/// esds variant: T AAC tracks whose ES descriptor declares a length that reaches to the end of the
/// file; the bytes after the esds box are then walked as descriptors (any bytes are: tag, length,
/// skip), two bytes per step over a region of zeros.  The containers are assembled here, the leaf
/// boxes are written by the library, the esds box by hand (the library always writes minimal lengths).
pub fn build_esds(tn: u32, region: usize) -> Vec<u8> {
    build_esds_at(tn, region, false)
}
/// `inner`: the over-long length sits in the DecoderConfigDescriptor (tag 4) while the esds box and the
/// ES descriptor (tag 3) lengths reach to the same far position, i.e. are consistent with each other
pub fn build_esds_at(tn: u32, region: usize, inner: bool) -> Vec<u8> {
    let ftyp = ser(&FtypBox { major_brand: FourCC::from(*b"isom"), minor_version: 0, compatible_brands: vec![] });
    let mut mvhd = MvhdBox::default();
    mvhd.timescale = 1000;
    mvhd.next_track_id = tn + 1;
    let trak_of = |id: u32, es_len: u32, jump: u32| -> Vec<u8> {
        let mut tkhd = TkhdBox::default();
        tkhd.track_id = id;
        let mut mdhd = MdhdBox::default();
        mdhd.timescale = 1000;
        let mut hdlr = HdlrBox::default();
        hdlr.handler_type = FourCC::from(*b"soun");
        // ES_Descr (tag 3, four length bytes), ES_ID, flags, DecoderConfig (tag 4, 15 bytes: AAC LC 44.1 kHz
        // stereo with its 2-byte DecoderSpecificInfo), SLConfig (tag 6)
        let l4 = |n: u32| [0x80 | ((n >> 21) & 0x7F) as u8, 0x80 | ((n >> 14) & 0x7F) as u8, 0x80 | ((n >> 7) & 0x7F) as u8, (n & 0x7F) as u8];
        let mut es = vec![3u8];
        // inner: the ES descriptor's own length is honest (3 + 5 + 17 bytes follow in the box)
        es.extend_from_slice(&l4(if inner { 30 } else { es_len }));
        es.extend_from_slice(&[0, 1, 0]);
        if inner {
            // the DecoderConfigDescriptor payload starts 8 bytes after the ES descriptor's payload
            es.push(4);
            es.extend_from_slice(&l4(es_len.saturating_sub(8)));
            es.extend_from_slice(&[0x40, 0x15, 0, 0, 0, 0, 0, 0, 0, 0, 0, 0, 0, 5, 2, 0x12, 0x10]);
            // an uninterpreted descriptor whose (honest, as far as the over-long container goes) length
            // skips the rest of the movie header and lands in the region of zeros
            es.push(0x7F);
            es.extend_from_slice(&l4(jump));
        } else {
            es.extend_from_slice(&[4, 17, 0x40, 0x15, 0, 0, 0, 0, 0, 0, 0, 0, 0, 0, 0, 5, 2, 0x12, 0x10]);
            es.extend_from_slice(&[6, 1, 2]);
        }
        let mut esds = vec![0u8, 0, 0, 0];
        esds.extend_from_slice(&es);
        let mut mp4a = vec![0u8, 0, 0, 0, 0, 0, 0, 1, 0, 0, 0, 0, 0, 0, 0, 0, 0, 2, 0, 16, 0, 0, 0, 0, 0xAC, 0x44, 0, 0];
        mp4a.extend_from_slice(&bx(b"esds", &esds));
        let mut stsd = vec![0u8, 0, 0, 0, 0, 0, 0, 1];
        stsd.extend_from_slice(&bx(b"mp4a", &mp4a));
        let mut stbl = bx(b"stsd", &stsd);
        stbl.extend_from_slice(&ser(&SttsBox::default()));
        stbl.extend_from_slice(&ser(&StscBox::default()));
        stbl.extend_from_slice(&ser(&StszBox::default()));
        stbl.extend_from_slice(&ser(&StcoBox::default()));
        let mut minf = ser(&SmhdBox::default());
        minf.extend_from_slice(&ser(&DinfBox::default()));
        minf.extend_from_slice(&bx(b"stbl", &stbl));
        let mut mdia = ser(&mdhd);
        mdia.extend_from_slice(&ser(&hdlr));
        mdia.extend_from_slice(&bx(b"minf", &minf));
        let mut trak = ser(&tkhd);
        trak.extend_from_slice(&bx(b"mdia", &mdia));
        bx(b"trak", &trak)
    };
    let assemble = |lens: &[(u32, u32)]| -> Vec<u8> {
        let mut moov = ser(&mvhd);
        for i in 0..tn {
            moov.extend_from_slice(&trak_of(i + 1, lens.get(i as usize).map(|x| x.0).unwrap_or(30), lens.get(i as usize).map(|x| x.1).unwrap_or(0)));
        }
        let mut f = ftyp.clone();
        f.extend_from_slice(&bx(b"moov", &moov));
        f
    };
    let first = assemble(&[]);
    let total = first.len() + 8 + region;
    // the ES descriptor's payload starts 5 bytes after its tag, i.e. 4 (type) + 4 (version/flags) + 5 after "esds"
    let idx: Vec<usize> = (0..first.len().saturating_sub(4)).filter(|&i| &first[i..i + 4] == b"esds").collect();
    // (length up to the end of the file, jump from behind the skip descriptor's header at i + 43 to the zeros)
    let lens: Vec<(u32, u32)> = idx.iter().map(|&i| (((total - 4) - (i + 13)) as u32, ((first.len() + 8).saturating_sub(i + 43)) as u32)).collect();
    let mut file = assemble(&lens);
    file.extend_from_slice(&((8 + region) as u32).to_be_bytes());
    file.extend_from_slice(b"free");
    file.extend(std::iter::repeat(0u8).take(region));
    file
}

/// table variant: one track whose sample table box holds K copies of one table box (stss, stts, ctts,
/// stsc, stco, co64, stsz) that declares only its header and count (no room for entries) and a count
/// worth the L bytes that follow the movie header.  A reader that checks the count against the box
/// rejects the first copy; one that does not reads L bytes per copy and is seeked back each time.
pub fn build_tables(kind: &str, k: u32, region: usize) -> Vec<u8> {
    let (tag, esize, extra): (&[u8; 4], usize, usize) = match kind {
        "tbl-stss" => (b"stss", 4, 0),
        "tbl-stts" => (b"stts", 8, 0),
        "tbl-ctts" => (b"ctts", 8, 0),
        "tbl-stsc" => (b"stsc", 12, 0),
        "tbl-stco" => (b"stco", 4, 0),
        "tbl-co64" => (b"co64", 8, 0),
        _ => (b"stsz", 4, 4), // sample_size word (0 = per-sample sizes) before the count
    };
    let mut out = ser(&FtypBox { major_brand: FourCC::from(*b"isom"), minor_version: 0, compatible_brands: vec![] });
    let mut mvhd = MvhdBox::default();
    mvhd.timescale = 1000;
    mvhd.next_track_id = 2;
    let mut tkhd = TkhdBox::default();
    tkhd.track_id = 1;
    let mut mdhd = MdhdBox::default();
    mdhd.timescale = 1000;
    let mut hdlr = HdlrBox::default();
    hdlr.handler_type = FourCC::from(*b"vide");
    let mut stsd = StsdBox::default();
    let mut hev1 = Hev1Box::default();
    hev1.hvcc.configuration_version = 1;
    stsd.hev1 = Some(hev1);
    let count = ((region.saturating_sub(64 + 24 * k as usize)) / esize) as u32;
    let mut copy = vec![0u8; 4 + extra];
    copy.extend_from_slice(&count.to_be_bytes());
    let mut stbl = ser(&stsd);
    stbl.extend_from_slice(&ser(&SttsBox::default()));
    stbl.extend_from_slice(&ser(&StscBox::default()));
    stbl.extend_from_slice(&ser(&StszBox::default()));
    stbl.extend_from_slice(&ser(&StcoBox::default()));
    for _ in 0..k {
        stbl.extend_from_slice(&bx(tag, &copy));
    }
    let mut minf = ser(&VmhdBox::default());
    minf.extend_from_slice(&ser(&DinfBox::default()));
    minf.extend_from_slice(&bx(b"stbl", &stbl));
    let mut mdia = ser(&mdhd);
    mdia.extend_from_slice(&ser(&hdlr));
    mdia.extend_from_slice(&bx(b"minf", &minf));
    let mut trak = ser(&tkhd);
    trak.extend_from_slice(&bx(b"mdia", &mdia));
    let mut moov = ser(&mvhd);
    moov.extend_from_slice(&bx(b"trak", &trak));
    out.extend_from_slice(&bx(b"moov", &moov));
    out.extend_from_slice(&bx(b"free", &vec![0u8; region]));
    out
}

/// data-reference variant: one track whose media information box holds K data information boxes of
/// 64 bytes.  Each data reference box announces more entries than fit into it -- as many as there are
/// small boxes between itself and the last data information box -- and its second entry ends inside
/// the following box.  A reader that stops at the end of the data reference looks at two entries per
/// box; one that goes by the count alone walks over all the following ones, K times.
pub fn build_drefwalk(k: u32) -> Vec<u8> {
    let mut out = ser(&FtypBox { major_brand: FourCC::from(*b"isom"), minor_version: 0, compatible_brands: vec![] });
    let mut mvhd = MvhdBox::default();
    mvhd.timescale = 1000;
    mvhd.next_track_id = 2;
    let mut tkhd = TkhdBox::default();
    tkhd.track_id = 1;
    let mut mdhd = MdhdBox::default();
    mdhd.timescale = 1000;
    let mut hdlr = HdlrBox::default();
    hdlr.handler_type = FourCC::from(*b"vide");
    let mut stsd = StsdBox::default();
    let mut hev1 = Hev1Box::default();
    hev1.hvcc.configuration_version = 1;
    stsd.hev1 = Some(hev1);
    let mut stbl = ser(&stsd);
    stbl.extend_from_slice(&ser(&SttsBox::default()));
    stbl.extend_from_slice(&ser(&StscBox::default()));
    stbl.extend_from_slice(&ser(&StszBox::default()));
    stbl.extend_from_slice(&ser(&StcoBox::default()));
    let mut minf = ser(&VmhdBox::default());
    for j in 0..k {
        let count = 2 * (k - 1 - j) + 1;
        let mut dref = vec![0u8; 4];
        dref.extend_from_slice(&count.to_be_bytes());
        dref.extend_from_slice(&bx(b"skip", &[0u8; 8]));
        // an entry of 48 bytes (not larger than the data reference box): 24 of them are here
        dref.extend_from_slice(&48u32.to_be_bytes());
        dref.extend_from_slice(b"skip");
        dref.extend_from_slice(&[0u8; 16]);
        minf.extend_from_slice(&bx(b"dinf", &bx(b"dref", &dref)));
    }
    minf.extend_from_slice(&bx(b"free", &[0u8; 32]));
    minf.extend_from_slice(&bx(b"stbl", &stbl));
    let mut mdia = ser(&mdhd);
    mdia.extend_from_slice(&ser(&hdlr));
    mdia.extend_from_slice(&bx(b"minf", &minf));
    let mut trak = ser(&tkhd);
    trak.extend_from_slice(&bx(b"mdia", &mdia));
    let mut moov = ser(&mvhd);
    moov.extend_from_slice(&bx(b"trak", &trak));
    out.extend_from_slice(&bx(b"moov", &moov));
    out
}

/// fragment-walk-to-the-end variant: K movie fragment boxes of 32 bytes (header, mfhd, and the HEADER of a
/// track fragment box whose size reaches to the end of the file), each followed by a 16-byte tfhd.  A reader
/// that checks a child against its parent rejects the first one; one that does not parses the rest of the
/// file as the children of every track fragment in turn, K times.
pub fn build_moofwalk(k: u32) -> Vec<u8> {
    let mut out = ser(&FtypBox { major_brand: FourCC::from(*b"isom"), minor_version: 0, compatible_brands: vec![] });
    let mut moov = MoovBox::default();
    moov.mvhd.timescale = 1000;
    moov.mvhd.next_track_id = 2;
    moov.traks.push(trak(1, 4, false));
    let mut mvex = MvexBox::default();
    mvex.trex.track_id = 1;
    moov.mvex = Some(mvex);
    out.extend_from_slice(&ser(&moov));
    let total = out.len() + 48 * k as usize;
    for i in 0..k {
        let mut mfhd = MfhdBox::default();
        mfhd.sequence_number = i + 1;
        let mut moof = ser(&mfhd);
        let traf_start = out.len() + 8 + moof.len();
        moof.extend_from_slice(&((total - traf_start) as u32).to_be_bytes());
        moof.extend_from_slice(b"traf");
        out.extend_from_slice(&bx(b"moof", &moof));
        let mut tfhd = vec![0u8; 4];
        tfhd.extend_from_slice(&1u32.to_be_bytes());
        out.extend_from_slice(&bx(b"tfhd", &tfhd));
    }
    out
}

/// tracks x fragments variant: T tracks and F movie fragments of one tiny track fragment each.  What
/// open() builds should be linear in the file (T + F); a reader that reserves per-track room
/// for every fragment needs T x F.
pub fn build_tracks_moofs(tn: u32, f: u32) -> Vec<u8> {
    let mut out = ser(&FtypBox { major_brand: FourCC::from(*b"isom"), minor_version: 0, compatible_brands: vec![] });
    let mut moov = MoovBox::default();
    moov.mvhd.timescale = 1000;
    moov.mvhd.next_track_id = tn + 1;
    for i in 0..tn {
        moov.traks.push(trak(i + 1, 4, false));
    }
    let mut mvex = MvexBox::default();
    mvex.trex.track_id = 1;
    moov.mvex = Some(mvex);
    out.extend_from_slice(&ser(&moov));
    for i in 0..f {
        let mut moof = MoofBox::default();
        moof.mfhd.sequence_number = i + 1;
        let tfhd = TfhdBox { version: 0, flags: TfhdBox::FLAG_DEFAULT_BASE_IS_MOOF, track_id: 1 + (i % tn), ..Default::default() };
        let mut trun = TrunBox { version: 0, flags: TrunBox::FLAG_SAMPLE_SIZE | TrunBox::FLAG_DATA_OFFSET, sample_count: 1, data_offset: Some(0), ..Default::default() };
        trun.sample_sizes = vec![1];
        moof.trafs.push(TrafBox { tfhd, tfdt: None, trun: Some(trun) });
        let len = ser(&moof).len();
        if let Some(t) = moof.trafs[0].trun.as_mut() {
            t.data_offset = Some(len as i32 + 8);
        }
        out.extend_from_slice(&ser(&moof));
        out.extend_from_slice(&bx(b"mdat", &[0x44]));
    }
    out
}

/// fragment-walk variant: one movie fragment with K track fragments of the same track whose runs are
/// empty, followed by one run of M samples.  Finding the offset of the last sample adds up the M
/// sizes before it; if every size lookup searches the K track fragments again, one call costs
/// M x K steps for a file of about 60 K + 4 M bytes (no stream operation involved: CPU only).
pub fn build_fragwalk(k: u32, m: u32) -> Vec<u8> {
    let mut out = ser(&FtypBox { major_brand: FourCC::from(*b"isom"), minor_version: 0, compatible_brands: vec![] });
    let mut moov = MoovBox::default();
    moov.mvhd.timescale = 1000;
    moov.mvhd.next_track_id = 2;
    moov.traks.push(trak(1, 4, false));
    let mut mvex = MvexBox::default();
    mvex.trex.track_id = 1;
    mvex.trex.default_sample_duration = 10;
    moov.mvex = Some(mvex);
    out.extend_from_slice(&ser(&moov));
    let mut moof = MoofBox::default();
    moof.mfhd.sequence_number = 1;
    let tfhd = TfhdBox { version: 0, flags: TfhdBox::FLAG_DEFAULT_BASE_IS_MOOF, track_id: 1, ..Default::default() };
    for _ in 0..k {
        moof.trafs.push(TrafBox { tfhd: tfhd.clone(), tfdt: None,
            trun: Some(TrunBox { version: 0, flags: TrunBox::FLAG_SAMPLE_SIZE, sample_count: 0, ..Default::default() }) });
    }
    let mut last = TrunBox { version: 0, flags: TrunBox::FLAG_SAMPLE_SIZE | TrunBox::FLAG_DATA_OFFSET, sample_count: m,
        data_offset: Some(0), ..Default::default() };
    last.sample_sizes = vec![1; m as usize];
    moof.trafs.push(TrafBox { tfhd, tfdt: None, trun: Some(last) });
    let moof_len = ser(&moof).len();
    if let Some(t) = moof.trafs.last_mut().and_then(|t| t.trun.as_mut()) {
        t.data_offset = Some(moof_len as i32 + 8);
    }
    out.extend_from_slice(&ser(&moof));
    out.extend_from_slice(&bx(b"mdat", &vec![0x33u8; m as usize]));
    out
}

/// one `reset` + one `block` event (the input is not logged: it is a function of (t, k))
pub fn run(tn: u32, k: u32, kind: &str, id: u64, out: &mut Out) {
    let file = match kind {
        "esds" => build_esds(tn, k as usize * 1024),
        "esds4" => build_esds_at(tn, k as usize * 1024, true),
        "fragwalk" => build_fragwalk(tn, k),
        "drefwalk" => build_drefwalk(tn),
        "moofwalk" => build_moofwalk(tn),
        "tracksmoofs" => build_tracks_moofs(tn, k),
        x if x.starts_with("tbl-") => build_tables(x, tn, k as usize * 1024),
        _ => build(tn, k, kind == "avc"),
    };
    out.ev(json!({"e":"reset","id":format!("amplify-{}-{}-{}", kind, tn, k),"kind":"amplification","len":file.len(),"mode":"open"}));
    // arm the watchdog (an execution that does not return within HANG_MS ends the process with a `hang` record)
    if let Ok(mut g) = robust::CUR.lock() {
        *g = Some((id, "open", json!(format!("amplify {},{},{}", tn, k, kind)), Vec::new()));
    }
    robust::arm();
    let o = robust::execute(&file, None);
    robust::disarm();
    let st = match o.status { "ok" => 0, "err" => 1, _ => 2 } + if o.budget_hit { 4 } else { 0 };
    out.ev(json!({"e":"block","base":id,"mode":"open","n":[o.n.min(robust::SAT)],"ops":[o.ops.min(robust::SAT)],"peak":[o.peak.min(robust::SAT)],
        "maxreq":[o.maxreq.min(robust::SAT)],"bytes":[o.bytes.min(robust::SAT)],"st":[st]}));
}
