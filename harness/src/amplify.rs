// C07 / C08, amplification family: a movie of T HEVC tracks whose parameter-set record (hvcC)
// declares more arrays than it holds, the last NAL unit inside each record declaring a length
// that reaches to a shared region after the movie header.  If the record reader is not bounded by
// its own box, every track re-reads that region (K x 64 KiB): bytes transferred and memory grow
// with T x K x 64 KiB while the file is only K x 64 KiB long.  A bounded reader rejects the
// record at once.  The file is built with the library's own box writers; one byte per record is
// patched (the array count).  No oracle here: the execution is measured like every other one.
use crate::mux::Out;
use crate::robust;
use mp4::verif::*;
use mp4::*;
use serde_json::json;

fn trak(id: u32, jump: u16, avc: bool) -> TrakBox {
    if avc {
        let mut t = trak(id, jump, false);
        t.mdia.minf.stbl.stsd.hev1 = None;
        let mut avc1 = Avc1Box::default();
        avc1.width = 16;
        avc1.height = 16;
        avc1.avcc.configuration_version = 1;
        avc1.avcc.sequence_parameter_sets = vec![NalUnit { bytes: vec![0x67, 66, 0, 30] }];
        avc1.avcc.picture_parameter_sets = vec![NalUnit { bytes: vec![0x68, 1, 2, 3] }];
        t.mdia.minf.stbl.stsd.avc1 = Some(avc1);
        return t;
    }
    let mut t = TrakBox::default();
    t.tkhd.track_id = id;
    t.tkhd.flags = 3;
    t.mdia.mdhd.timescale = 1000;
    t.mdia.hdlr.handler_type = FourCC::from(*b"vide");
    t.mdia.minf.vmhd = Some(VmhdBox::default());
    let mut hev1 = Hev1Box::default();
    hev1.width = 16;
    hev1.height = 16;
    hev1.hvcc.configuration_version = 1;
    hev1.hvcc.arrays = vec![HvcCArray {
        completeness: true,
        nal_unit_type: 32,
        nalus: vec![HvcCArrayNalu { size: jump, data: vec![0x40, 1, 2, 3] }],
    }];
    t.mdia.minf.stbl.stsd.hev1 = Some(hev1);
    t.mdia.minf.stbl.stco = Some(StcoBox::default());
    t
}

fn render(tn: u32, jumps: &[u16], avc: bool) -> (Vec<u8>, usize) {
    let mut out = Vec::new();
    let ftyp = FtypBox { major_brand: FourCC::from(*b"isom"), minor_version: 0, compatible_brands: vec![FourCC::from(*b"isom")] };
    ftyp.write_box(&mut out).unwrap();
    let mut moov = MoovBox::default();
    moov.mvhd.timescale = 1000;
    moov.mvhd.next_track_id = tn + 1;
    for i in 0..tn {
        moov.traks.push(trak(i + 1, jumps.get(i as usize).copied().unwrap_or(4), avc));
    }
    moov.write_box(&mut out).unwrap();
    let end = out.len();
    (out, end)
}

pub fn build(tn: u32, k: u32, avc: bool) -> Vec<u8> {
    let (first, moov_end) = render(tn, &[], avc);
    let tag: &[u8; 4] = if avc { b"avcC" } else { b"hvcC" };
    let idx: Vec<usize> = (0..first.len().saturating_sub(4)).filter(|&i| &first[i..i + 4] == tag).collect();
    let tail_start = moov_end + 8;
    let mut file;
    if avc {
        // avcC payload p = i + 4: 5 fixed bytes, SPS count, SPS (2 + 4), PPS count at p + 12, PPS length at
        // p + 13, PPS data at p + 15.  Patched: the PPS count and the length of the one PPS in the box.
        file = first;
        for &i in idx.iter() {
            let p = i + 4;
            file[p + 12] = (1 + k).min(255) as u8;
            let j = (tail_start - (p + 15)).min(65535) as u16;
            file[p + 13..p + 15].copy_from_slice(&j.to_be_bytes());
        }
    } else {
        // hvcC: "hvcC" + 4 (type) + 22 fixed bytes = array count; the NAL data starts at + 32; the NAL
        // length is a field of the library's struct, only the array count is patched
        let jumps: Vec<u16> = idx.iter().map(|&i| (tail_start - (i + 32)).min(65535) as u16).collect();
        file = render(tn, &jumps, false).0;
        for &i in idx.iter() {
            file[i + 4 + 22] = (1 + k).min(255) as u8;
        }
    }
    // the shared region: a free box holding k arrays of one 65535-byte NAL unit each (hvcC) /
    // k parameter sets of 65535 bytes (avcC)
    let unit: &[u8] = if avc { &[0xFF, 0xFF] } else { &[0x21, 0, 1, 0xFF, 0xFF] };
    let body = k as usize * (unit.len() + 65535);
    file.extend_from_slice(&((8 + body) as u32).to_be_bytes());
    file.extend_from_slice(b"free");
    for _ in 0..k {
        file.extend_from_slice(unit);
        file.extend(std::iter::repeat(0x55u8).take(65535));
    }
    file
}

/// one `reset` + one `block` event (the input is not logged: it is a function of (t, k))
pub fn run(tn: u32, k: u32, avc: bool, id: u64, out: &mut Out) {
    let file = build(tn, k, avc);
    out.ev(json!({"e":"reset","id":format!("amplify-{}-{}-{}", if avc { "avc" } else { "hevc" }, tn, k),"kind":"amplification","len":file.len(),"mode":"open"}));
    let o = robust::execute(&file, None);
    let st = match o.status { "ok" => 0, "err" => 1, _ => 2 } + if o.budget_hit { 4 } else { 0 };
    out.ev(json!({"e":"block","base":id,"mode":"open","n":[o.n.min(robust::SAT)],"ops":[o.ops.min(robust::SAT)],"peak":[o.peak.min(robust::SAT)],
        "maxreq":[o.maxreq.min(robust::SAT)],"bytes":[o.bytes.min(robust::SAT)],"st":[st]}));
}
