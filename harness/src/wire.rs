// C04 / C05: the real box codecs against the specification's reference bytes and values.
// For every case {t, v, enc, large, spare} produced by MC_Wire: decode `enc` (followed by a
// sibling box) with the library, observe the decoded value through its Debug output, re-encode it,
// decode the non-canonical variants.  Everything observed goes into one `wire` event; the
// comparisons are made by TLC (Trace_Wire).
use crate::dbg;
use crate::mux::Out;
use crate::util::*;
use mp4::verif::*;
use mp4::*;
use serde_json::{json, Map, Value};
use std::fmt::Debug;
use std::io::Cursor;

const SIBLING: [u8; 12] = [0, 0, 0, 12, b'f', b'r', b'e', b'e', 1, 2, 3, 4];

fn datatype_code(name: &str) -> Option<u64> {
    match name {
        "Binary" => Some(0),
        "Text" => Some(1),
        "Image" => Some(13),
        "TempoCpil" => Some(21),
        _ => None,
    }
}

/// bring the Debug-derived tree into the representation of the expected value: the SHAPE of
/// `exp` decides how numbers / strings are represented (Big digit arrays, byte arrays); values
/// are not touched.
pub fn normalise(act: &Value, exp: &Value) -> Value {
    match (act, exp) {
        // fixed point newtypes: FixedPointXX(Ratio { numer, denom }) -> raw value
        (Value::Object(a), _) if a.get("_").and_then(|x| x.as_str()).map(|s| s.starts_with("FixedPoint")).unwrap_or(false) => {
            let raw = a.get("0").and_then(|r| r.get("numer")).cloned().unwrap_or(Value::Null);
            normalise(&raw, exp)
        }
        // empty struct (SLConfigDescriptor) where the specification has the empty record / tuple
        (Value::Object(a), Value::Array(e)) if e.is_empty() && a.len() <= 1 => json!([]),
        (Value::Object(a), Value::Array(_)) | (Value::Object(a), Value::Number(_)) if a.contains_key("_variant") => {
            // unit enum variant where the specification has a number (DataType)
            match a.get("_variant").and_then(|x| x.as_str()).and_then(datatype_code) {
                Some(n) => normalise(&json!(n), exp),
                // a box type printed as its four characters
                None => bytes_val(a["_variant"].as_str().unwrap_or("").as_bytes()),
            }
        }
        (Value::Number(n), Value::Array(_)) => match n.as_u64() {
            Some(u) => big(u),
            None => act.clone(),
        },
        (Value::String(s), Value::Array(_)) => bytes_val(s.as_bytes()),
        (Value::Array(a), Value::Array(e)) => Value::Array(
            a.iter().enumerate().map(|(i, x)| normalise(x, e.get(i).or_else(|| e.first()).unwrap_or(&Value::Null))).collect(),
        ),
        // a sequence of pairs where the specification has <<type, bytes>>: the type printed as text
        (Value::Object(a), Value::Array(_)) if a.contains_key("_variant") => {
            bytes_val(a["_variant"].as_str().unwrap_or("").as_bytes())
        }
        (Value::Object(a), Value::Object(e)) => {
            let mut m = Map::new();
            for (k, v) in a.iter() {
                if k == "_" {
                    if e.contains_key("kind") {
                        m.insert("kind".into(), v.clone());
                    }
                    continue;
                }
                if k == "_variant" {
                    continue;
                }
                if k == "first_sample" && !e.contains_key(k) {
                    continue; // derived while decoding, not on the wire
                }
                m.insert(k.clone(), normalise(v, e.get(k).unwrap_or(&Value::Null)));
            }
            Value::Object(m)
        }
        // empty struct (SLConfigDescriptor) where the specification has the empty record / tuple
        (Value::Object(a), Value::Array(e)) if e.is_empty() && a.len() <= 1 => json!([]),
        (Value::Null, _) => json!("unparsed"),
        _ => act.clone(),
    }
}

struct Dec {
    res: &'static str,
    msg: String,
    dbg: Value,
    pos: u64,
    reenc_res: &'static str,
    reenc: Vec<u8>,
    ret: u64,
    box_size: u64,
    fix: bool,
    hdr_type: u32,
    // the library's own round trip: decode(encode(d) ++ sibling) == d, stream at the end of the box
    self_ok: bool,
    self_pos: u64,
    // the same bytes decoded through a stream that transfers fewer bytes per call than requested
    split_ok: bool,
}

fn run<T>(bytes: &[u8], with_sibling: bool) -> Dec
where
    T: Debug + PartialEq + Mp4Box,
    T: for<'a> ReadBox<&'a mut Cursor<Vec<u8>>>,
    T: for<'a> ReadBox<&'a mut crate::streams::Ctl<Cursor<Vec<u8>>>>,
    T: for<'a> WriteBox<&'a mut Vec<u8>>,
{
    let mut input = bytes.to_vec();
    if with_sibling {
        input.extend_from_slice(&SIBLING);
    }
    let mut d = Dec { res: "ok", msg: String::new(), dbg: Value::Null, pos: 0, reenc_res: "skipped", reenc: vec![], ret: 0, box_size: 0, fix: false,
        hdr_type: 0, self_ok: false, self_pos: 0, split_ok: false };
    let mut c = Cursor::new(input);
    let mut ht = 0u32;
    let r = guarded(|| {
        let h = BoxHeader::read(&mut c)?;
        ht = h.name.into();
        T::read_box(&mut c, h.size)
    });
    d.hdr_type = ht;
    d.pos = c.position();
    let val = match r {
        Ok(Ok(v)) => v,
        Ok(Err(e)) => {
            d.res = "err";
            d.msg = e.to_string();
            return d;
        }
        Err(p) => {
            d.res = "panic";
            d.msg = p;
            return d;
        }
    };
    d.dbg = dbg::parse(&format!("{:?}", val));
    d.split_ok = true;
    for (seed, max_chunk) in [(0x1234_5678_9ABC_DEF1u64, 1usize), (0x0F0F_1234_5555_AAA1, 7), (0x7777_1234_5555_AAA3, 300)] {
        let mut cs = crate::streams::Ctl::new(Cursor::new({
            let mut v = bytes.to_vec();
            if with_sibling {
                v.extend_from_slice(&SIBLING);
            }
            v
        }));
        cs.split = seed;
        cs.max_chunk = max_chunk;
        let ok = matches!(guarded(|| {
            let h = BoxHeader::read(&mut cs)?;
            T::read_box(&mut cs, h.size)
        }), Ok(Ok(ref v2)) if *v2 == val);
        d.split_ok &= ok;
    }
    let mut out = Vec::new();
    match guarded(|| (val.write_box(&mut out), val.box_size())) {
        Ok((Ok(n), bs)) => {
            d.reenc_res = "ok";
            d.ret = n;
            d.box_size = bs;
        }
        Ok((Err(e), bs)) => {
            d.reenc_res = "err";
            d.msg = e.to_string();
            d.box_size = bs;
        }
        Err(p) => {
            d.reenc_res = "panic";
            d.msg = p;
        }
    }
    d.reenc = out.clone();
    // the library's own round trip with a sibling following
    if d.reenc_res == "ok" {
        let mut with_sib = out.clone();
        with_sib.extend_from_slice(&SIBLING);
        let mut c3 = Cursor::new(with_sib);
        if let Ok(Ok(v3)) = guarded(|| {
            let h = BoxHeader::read(&mut c3)?;
            T::read_box(&mut c3, h.size)
        }) {
            d.self_ok = v3 == val;
        }
        d.self_pos = c3.position();
    }
    // fixpoint: decode(encode(decode(x))) == decode(x)
    if d.reenc_res == "ok" {
        let mut c2 = Cursor::new(out);
        if let Ok(Ok(v2)) = guarded(|| {
            let h = BoxHeader::read(&mut c2)?;
            T::read_box(&mut c2, h.size)
        }) {
            d.fix = v2 == val;
        }
    }
    d
}

macro_rules! dispatch {
    ($t:expr, $b:expr, $s:expr, $( $name:literal => $ty:ty ),* ) => {
        match $t {
            $( $name => Some(run::<$ty>($b, $s)), )*
            _ => None,
        }
    };
}

fn run_type(t: &str, b: &[u8], sib: bool) -> Option<Dec> {
    dispatch!(t, b, sib,
        "ftyp" => FtypBox, "mvhd" => MvhdBox, "tkhd" => TkhdBox, "mdhd" => MdhdBox, "hdlr" => HdlrBox, "vmhd" => VmhdBox,
        "smhd" => SmhdBox, "url " => UrlBox, "dref" => DrefBox, "dinf" => DinfBox, "stts" => SttsBox, "ctts" => CttsBox,
        "stss" => StssBox, "stsc" => StscBox, "stsz" => StszBox, "stco" => StcoBox, "co64" => Co64Box, "mehd" => MehdBox,
        "trex" => TrexBox, "mfhd" => MfhdBox, "tfhd" => TfhdBox, "tfdt" => TfdtBox, "trun" => TrunBox, "elst" => ElstBox,
        "edts" => EdtsBox, "emsg" => EmsgBox, "data" => DataBox, "avcC" => AvcCBox, "avc1" => Avc1Box, "hvcC" => HvcCBox,
        "hev1" => Hev1Box, "vpcC" => VpccBox, "vp09" => Vp09Box, "esds" => EsdsBox, "mp4a" => Mp4aBox, "tx3g" => Tx3gBox,
        "stsd" => StsdBox, "stbl" => StblBox, "minf" => MinfBox, "mdia" => MdiaBox, "trak" => TrakBox, "mvex" => MvexBox,
        "moov" => MoovBox, "ilst" => IlstBox, "meta" => MetaBox, "udta" => UdtaBox, "traf" => TrafBox, "moof" => MoofBox)
}

/// C04 on a value CONSTRUCTED from the specification's value (not obtained from the decoder):
/// encode it with the library, decode the bytes with a sibling following, compare with `==`.
fn built<T>(exp: &Value) -> Value
where
    T: crate::build::FromSpec + Debug + PartialEq + Mp4Box,
    T: for<'a> ReadBox<&'a mut Cursor<Vec<u8>>>,
    T: for<'a> WriteBox<&'a mut Vec<u8>>,
{
    let Some(x) = T::from_spec(exp) else {
        return json!({"res":"unbuildable","msg":"","enc":[],"ret":0,"box_size":0,"rt_res":"skipped","rt_eq":false,"rt_pos":0});
    };
    let mut out = Vec::new();
    let (res, msg, ret, bs) = match guarded(|| (x.write_box(&mut out), x.box_size())) {
        Ok((Ok(n), bs)) => ("ok", String::new(), n, bs),
        Ok((Err(e), bs)) => ("err", e.to_string(), 0, bs),
        Err(p) => ("panic", p, 0, 0),
    };
    let (mut rt_res, mut rt_eq, mut rt_pos) = ("skipped", false, 0u64);
    if res == "ok" {
        let mut with_sib = out.clone();
        with_sib.extend_from_slice(&SIBLING);
        let mut c = Cursor::new(with_sib);
        match guarded(|| {
            let h = BoxHeader::read(&mut c)?;
            T::read_box(&mut c, h.size)
        }) {
            Ok(Ok(y)) => {
                rt_res = "ok";
                rt_eq = y == x;
            }
            Ok(Err(_)) => rt_res = "err",
            Err(_) => rt_res = "panic",
        }
        rt_pos = c.position();
    }
    json!({"res":res,"msg":msg,"enc":bytes_val(&out),"ret":ret.min(0x7fff_ffff),"box_size":bs.min(0x7fff_ffff),"rt_res":rt_res,"rt_eq":rt_eq,"rt_pos":rt_pos})
}

macro_rules! dispatch_built {
    ($t:expr, $v:expr, $( $name:literal => $ty:ty ),* ) => {
        match $t {
            $( $name => built::<$ty>($v), )*
            _ => json!({"res":"none","msg":"","enc":[],"ret":0,"box_size":0,"rt_res":"skipped","rt_eq":false,"rt_pos":0}),
        }
    };
}

// every box type whose value can be written down with public fields (dinf keeps its dref private,
// and minf / mdia / trak / moov contain a dinf)
fn built_type(t: &str, v: &Value) -> Value {
    dispatch_built!(t, v,
        "ftyp" => FtypBox, "mvhd" => MvhdBox, "tkhd" => TkhdBox, "mdhd" => MdhdBox, "hdlr" => HdlrBox, "vmhd" => VmhdBox,
        "smhd" => SmhdBox, "url " => UrlBox, "dref" => DrefBox, "stts" => SttsBox, "ctts" => CttsBox,
        "stss" => StssBox, "stsc" => StscBox, "stsz" => StszBox, "stco" => StcoBox, "co64" => Co64Box, "mehd" => MehdBox,
        "trex" => TrexBox, "mfhd" => MfhdBox, "tfhd" => TfhdBox, "tfdt" => TfdtBox, "trun" => TrunBox, "elst" => ElstBox,
        "edts" => EdtsBox, "emsg" => EmsgBox, "data" => DataBox, "avcC" => AvcCBox, "avc1" => Avc1Box, "hvcC" => HvcCBox,
        "hev1" => Hev1Box, "vpcC" => VpccBox, "vp09" => Vp09Box, "esds" => EsdsBox, "mp4a" => Mp4aBox, "tx3g" => Tx3gBox,
        "stsd" => StsdBox, "stbl" => StblBox, "mvex" => MvexBox,
        "ilst" => IlstBox, "meta" => MetaBox, "udta" => UdtaBox, "traf" => TrafBox, "moof" => MoofBox)
}

fn dec_json(d: &Dec, exp: &Value) -> Value {
    json!({"res": d.res, "msg": d.msg, "v": if d.res == "ok" { normalise(&d.dbg, exp) } else { json!("-") }, "pos": d.pos,
        "hdr_type": bytes_val(&d.hdr_type.to_be_bytes())})
}

pub fn run_case(case: &Value, idx: u64, out: &mut Out) {
    let t = case["t"].as_str().unwrap_or("");
    let enc = from_bytes(&case["enc"]);
    let exp = &case["v"];
    // d0: the box alone (this is how a value of the library is obtained for the library-internal
    // round trip of C04); d: the box with a sibling following
    let d0 = run_type(t, &enc, false);
    let Some(d) = run_type(t, &enc, true) else {
        out.ev(json!({"e":"wire","id":idx,"t":t,"unsupported":true}));
        return;
    };
    let mut variants = Vec::new();
    for kind in ["large", "spare", "padded", "long", "kids"] {
        let vb = from_bytes(&case[kind]);
        if vb.is_empty() {
            continue;
        }
        if let Some(dv) = run_type(t, &vb, true) {
            variants.push(json!({"kind": kind, "len": vb.len(), "dec": dec_json(&dv, exp)}));
        }
    }
    // stsc carries a derived field (first_sample) that is not on the wire: drop it from the view
    out.ev(json!({"e":"wire","id":idx,"t":t,"mode":case["mode"],"unsupported":false,"v":exp,"enc":case["enc"],
        "dec": dec_json(&d, exp), "reenc_res": d.reenc_res, "reenc": bytes_val(&d.reenc), "ret": d.ret.min(0x7fff_ffff),
        "box_size": d.box_size.min(0x7fff_ffff), "fix": d.fix, "variants": variants,
        "alone": d0.as_ref().map(|x| dec_json(x, exp)).unwrap_or(json!({"res":"err","msg":"","v":"-","pos":0,"hdr_type":[]})),
        "self_ok": d0.as_ref().map(|x| x.self_ok).unwrap_or(false),
        "self_pos": d0.as_ref().map(|x| x.self_pos).unwrap_or(0),
        "self_len": d0.as_ref().map(|x| x.reenc.len()).unwrap_or(0),
        "built": built_type(t, exp),
        "split_ok": d.res != "ok" || d.split_ok,
        "self_reenc": d0.as_ref().map(|x| x.reenc_res).unwrap_or("skipped")}));
}
