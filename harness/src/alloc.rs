// Counting global allocator: live bytes, peak live bytes and the largest single request since
// the last reset.  Observation only: every request is passed on to the system allocator.
use std::alloc::{GlobalAlloc, Layout, System};
use std::sync::atomic::{AtomicU64, Ordering::Relaxed};

pub struct Counting;
static LIVE: AtomicU64 = AtomicU64::new(0);
static BASE: AtomicU64 = AtomicU64::new(0);
static PEAK: AtomicU64 = AtomicU64::new(0);
static MAXREQ: AtomicU64 = AtomicU64::new(0);
static TOTAL: AtomicU64 = AtomicU64::new(0);

fn on_alloc(n: u64) {
    let live = LIVE.fetch_add(n, Relaxed) + n;
    PEAK.fetch_max(live, Relaxed);
    MAXREQ.fetch_max(n, Relaxed);
    TOTAL.fetch_add(n, Relaxed);
}

unsafe impl GlobalAlloc for Counting {
    unsafe fn alloc(&self, l: Layout) -> *mut u8 {
        on_alloc(l.size() as u64);
        System.alloc(l)
    }
    unsafe fn alloc_zeroed(&self, l: Layout) -> *mut u8 {
        on_alloc(l.size() as u64);
        System.alloc_zeroed(l)
    }
    unsafe fn dealloc(&self, p: *mut u8, l: Layout) {
        LIVE.fetch_sub(l.size() as u64, Relaxed);
        System.dealloc(p, l)
    }
    unsafe fn realloc(&self, p: *mut u8, l: Layout, new: usize) -> *mut u8 {
        if new as u64 > l.size() as u64 {
            on_alloc(new as u64 - l.size() as u64);
            MAXREQ.fetch_max(new as u64, Relaxed);
        } else {
            LIVE.fetch_sub(l.size() as u64 - new as u64, Relaxed);
        }
        System.realloc(p, l, new)
    }
}

/// start a measurement window
pub fn reset() {
    let live = LIVE.load(Relaxed);
    BASE.store(live, Relaxed);
    PEAK.store(live, Relaxed);
    MAXREQ.store(0, Relaxed);
    TOTAL.store(0, Relaxed);
}
/// (peak live bytes above the level at reset, largest single request, total requested)
pub fn window() -> (u64, u64, u64) {
    (
        PEAK.load(Relaxed).saturating_sub(BASE.load(Relaxed)),
        MAXREQ.load(Relaxed),
        TOTAL.load(Relaxed),
    )
}
