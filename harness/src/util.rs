// Shared helpers: PRNG, JSON encoding conventions of the trace format, payload digest,
// panic capture.
use serde_json::{json, Value};
use std::cell::RefCell;
use std::panic::{self, AssertUnwindSafe};

/// xorshift64* — deterministic, seedable, no dependency.
#[derive(Clone)]
pub struct Rng(pub u64);
impl Rng {
    pub fn new(seed: u64) -> Self {
        let mut r = Rng(seed.wrapping_mul(0x9E3779B97F4A7C15) ^ 0xD1B54A32D192ED03);
        if r.0 == 0 {
            r.0 = 0x2545F4914F6CDD1D;
        }
        for _ in 0..4 {
            r.next();
        }
        r
    }
    pub fn next(&mut self) -> u64 {
        let mut x = self.0;
        x ^= x >> 12;
        x ^= x << 25;
        x ^= x >> 27;
        self.0 = x;
        x.wrapping_mul(0x2545F4914F6CDD1D)
    }
    pub fn below(&mut self, n: u64) -> u64 {
        if n == 0 {
            0
        } else {
            self.next() % n
        }
    }
    pub fn range(&mut self, lo: u64, hi: u64) -> u64 {
        lo + self.below(hi - lo + 1)
    }
    pub fn chance(&mut self, num: u64, den: u64) -> bool {
        self.below(den) < num
    }
    pub fn pick<'a, T>(&mut self, xs: &'a [T]) -> &'a T {
        &xs[self.below(xs.len() as u64) as usize]
    }
}

/// A natural number as the spec's `Big`: big-endian base-256 digits without leading zeros.
pub fn big(n: u64) -> Value {
    let b = n.to_be_bytes();
    let first = b.iter().position(|&x| x != 0).unwrap_or(8);
    Value::Array(b[first..].iter().map(|&x| json!(x)).collect())
}
pub fn big128(n: u128) -> Value {
    let b = n.to_be_bytes();
    let first = b.iter().position(|&x| x != 0).unwrap_or(16);
    Value::Array(b[first..].iter().map(|&x| json!(x)).collect())
}
pub fn from_big(v: &Value) -> u64 {
    match v {
        Value::Array(a) => a.iter().fold(0u64, |acc, d| (acc << 8) | d.as_u64().unwrap_or(0)),
        Value::Number(n) => n.as_u64().unwrap_or(0),
        _ => 0,
    }
}
pub fn bytes_val(b: &[u8]) -> Value {
    Value::Array(b.iter().map(|&x| json!(x)).collect())
}
pub fn from_bytes(v: &Value) -> Vec<u8> {
    match v {
        Value::Array(a) => a.iter().map(|d| d.as_u64().unwrap_or(0) as u8).collect(),
        Value::String(s) => s.as_bytes().to_vec(),
        _ => Vec::new(),
    }
}

/// Payload digest logged on the write side and on the read side (same function).
/// FNV-1a 64 over the bytes; payloads > 4096 bytes that consist of one repeated byte use the
/// closed form over (len, byte) so that multi-GiB samples need no per-byte pass.
pub fn digest(b: &[u8]) -> [u8; 8] {
    let mut h: u64 = 0xcbf29ce484222325;
    let mut feed = |x: u8| {
        h ^= x as u64;
        h = h.wrapping_mul(0x100000001b3);
    };
    if b.len() > 4096 && b.iter().all(|&x| x == b[0]) {
        for x in (b.len() as u64).to_be_bytes() {
            feed(x);
        }
        feed(b[0]);
        feed(0xC0);
    } else {
        for &x in b {
            feed(x);
        }
    }
    h.to_be_bytes()
}

/// Deterministic payload of a sample: `len` bytes derived from `fill`.
pub fn payload(len: usize, fill: u64) -> Vec<u8> {
    if len > 4096 {
        vec![(fill & 0xff) as u8; len]
    } else {
        let mut r = Rng::new(fill ^ 0xABCDEF);
        (0..len).map(|_| (r.next() >> 32) as u8).collect()
    }
}

pub const VERBATIM: usize = 32;

/// The sample record of the trace: len, h, b (verbatim iff short).
pub fn sample_fields(b: &[u8]) -> (Value, Value, Value) {
    (
        json!(b.len()),
        bytes_val(&digest(b)),
        if b.len() <= VERBATIM { bytes_val(b) } else { json!([]) },
    )
}

thread_local! {
    static LAST_PANIC: RefCell<String> = RefCell::new(String::new());
}

pub fn install_panic_hook() {
    panic::set_hook(Box::new(|info| {
        let loc = info
            .location()
            .map(|l| format!("{}:{}", l.file(), l.line()))
            .unwrap_or_default();
        let msg = if let Some(s) = info.payload().downcast_ref::<&str>() {
            s.to_string()
        } else if let Some(s) = info.payload().downcast_ref::<String>() {
            s.clone()
        } else {
            "?".to_string()
        };
        LAST_PANIC.with(|p| *p.borrow_mut() = format!("{} @ {}", msg, loc));
    }));
}

pub fn last_panic() -> String {
    LAST_PANIC.with(|p| p.borrow().clone())
}

/// Run `f`; a panic in the code under test is data.
pub fn guarded<T>(f: impl FnOnce() -> T) -> Result<T, String> {
    match panic::catch_unwind(AssertUnwindSafe(f)) {
        Ok(v) => Ok(v),
        Err(_) => Err(last_panic()),
    }
}

/// Classify an mp4::Error for the trace: "ioerr" for I/O errors, "err" otherwise.
pub fn err_class(e: &mp4::Error) -> &'static str {
    match e {
        mp4::Error::IoError(_) => "ioerr",
        _ => "err",
    }
}
