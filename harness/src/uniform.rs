// C03 for sample counts up to the 2^32 - 1 of the count field: UNIFORM table sets (spec/Uniform.tla).
// The movie header is built with the library's own box writers from the case parameters (n samples of
// one size, one time-to-sample run, at most one composition-offset run, chunks of spc samples placed
// base + (c - 1) * (spc * size + gap)); the media data is not stored: the file is a sparse stream of
// the declared length.  Every call and its answer is recorded for Trace_Uniform, which judges it with
// the closed form of the ISO semantics.  No expectation is computed here.
use crate::mux::Out;
use crate::streams::Sparse;
use crate::util::*;
use mp4::verif::*;
use mp4::*;
use serde_json::{json, Value};

fn ser<T: for<'a> WriteBox<&'a mut Vec<u8>>>(b: &T) -> Vec<u8> {
    let mut v = Vec::new();
    b.write_box(&mut v).unwrap();
    v
}

/// header bytes (ftyp, moov, header of the media data box), total length, offset of the first chunk
fn build(n: u32, size: u32, delta: u32, cts: Option<i32>, spc: u32, gap: u32, co64: bool) -> (Vec<u8>, u64, u64) {
    let full = n / spc;
    let rest = n % spc;
    let chunks = full as u64 + if rest > 0 { 1 } else { 0 };
    let stride = spc as u64 * size as u64 + gap as u64;
    let payload = if chunks == 0 { 0 } else { (chunks - 1) * stride + if rest > 0 { rest } else { spc } as u64 * size as u64 };
    let render = |base: u64| -> Vec<u8> {
        let mut out = ser(&FtypBox { major_brand: FourCC::from(*b"isom"), minor_version: 0, compatible_brands: vec![FourCC::from(*b"isom")] });
        let mut moov = MoovBox::default();
        moov.mvhd.timescale = 1000;
        moov.mvhd.next_track_id = 2;
        let mut t = TrakBox::default();
        t.tkhd.track_id = 1;
        t.tkhd.flags = 3;
        t.mdia.mdhd.timescale = 1000;
        t.mdia.hdlr.handler_type = FourCC::from(*b"vide");
        t.mdia.minf.vmhd = Some(VmhdBox::default());
        let mut hev1 = Hev1Box::default();
        hev1.width = 16;
        hev1.height = 16;
        hev1.hvcc.configuration_version = 1;
        t.mdia.minf.stbl.stsd.hev1 = Some(hev1);
        let stbl = &mut t.mdia.minf.stbl;
        stbl.stsz.sample_size = size;
        stbl.stsz.sample_count = n;
        if n > 0 {
            stbl.stts.entries.push(SttsEntry { sample_count: n, sample_delta: delta });
        }
        if let Some(c) = cts {
            let mut ctts = CttsBox::default();
            ctts.version = 1;
            if n > 0 {
                ctts.entries.push(CttsEntry { sample_count: n, sample_offset: c });
            }
            stbl.ctts = Some(ctts);
        }
        if full > 0 {
            stbl.stsc.entries.push(StscEntry { first_chunk: 1, samples_per_chunk: spc, sample_description_index: 1, first_sample: 1 });
        }
        if rest > 0 {
            stbl.stsc.entries.push(StscEntry { first_chunk: full + 1, samples_per_chunk: rest, sample_description_index: 1,
                first_sample: (full as u64 * spc as u64 + 1) as u32 });
        }
        let offs: Vec<u64> = (0..chunks).map(|c| base + c * stride).collect();
        if co64 {
            stbl.co64 = Some(Co64Box { version: 0, flags: 0, entries: offs });
        } else {
            stbl.stco = Some(StcoBox { version: 0, flags: 0, entries: offs.iter().map(|&o| o as u32).collect() });
        }
        moov.traks.push(t);
        out.extend_from_slice(&ser(&moov));
        // header of the media data box: 64-bit form when the payload needs it
        if payload + 8 > u32::MAX as u64 {
            out.extend_from_slice(&1u32.to_be_bytes());
            out.extend_from_slice(b"mdat");
            out.extend_from_slice(&(payload + 16).to_be_bytes());
        } else {
            out.extend_from_slice(&((payload + 8) as u32).to_be_bytes());
            out.extend_from_slice(b"mdat");
        }
        out
    };
    // the header's length does not depend on the offsets stored in it
    let base = render(0).len() as u64;
    let hdr = render(base);
    debug_assert_eq!(hdr.len() as u64, base);
    (hdr, base + payload, base)
}

pub fn run_case(case: &Value, out: &mut Out) {
    let id = case["id"].as_str().unwrap_or("?");
    out.ev(json!({"e":"reset","id":id,"prop":"C03"}));
    let n = from_big(&case["n"]) as u32;
    let size = case["size"].as_u64().unwrap_or(1) as u32;
    let delta = from_big(&case["delta"]) as u32;
    let cts = case["cts"].as_i64().map(|c| c as i32);
    let spc = from_big(&case["spc"]).max(1) as u32;
    let gap = case["gap"].as_u64().unwrap_or(0) as u32;
    let co64 = case["co64"].as_bool().unwrap_or(true);
    let (hdr, total, base) = build(n, size, delta, cts, spc, gap, co64);
    out.ev(json!({"e":"ufile","n":big(n as u64),"size":size,"delta":big(delta as u64),"has_cts":cts.is_some(),"cts":cts.unwrap_or(0),
        "spc":big(spc as u64),"gap":gap,"base":big(base),"total":big(total),"co64":co64,"header_len":hdr.len()}));
    let mut s = Sparse::from_vec(hdr);
    s.len = s.len.max(total);
    let mut r = match guarded(|| Mp4Reader::read_header(s, total)) {
        Ok(Ok(r)) => r,
        Ok(Err(e)) => {
            out.ev(json!({"e":"uopen","res":err_class(&e),"msg":e.to_string()}));
            return;
        }
        Err(p) => {
            out.ev(json!({"e":"uopen","res":"panic","msg":p}));
            return;
        }
    };
    out.ev(json!({"e":"uopen","res":"ok","msg":""}));
    match guarded(|| r.sample_count(1)) {
        Ok(Ok(c)) => out.ev(json!({"e":"ucount","res":"ok","n":big(c as u64)})),
        Ok(Err(e)) => out.ev(json!({"e":"ucount","res":err_class(&e),"n":[]})),
        Err(_) => out.ev(json!({"e":"ucount","res":"panic","n":[]})),
    }
    for kv in case["ks"].as_array().map(|v| v.as_slice()).unwrap_or(&[]) {
        let k64 = from_big(kv);
        if k64 > u32::MAX as u64 {
            continue;
        }
        let k = k64 as u32;
        match guarded(|| r.read_sample(1, k)) {
            Ok(Ok(Some(sm))) => out.ev(json!({"e":"uread","k":big(k64),"res":"some","msg":"","len":sm.bytes.len(),"start":big(sm.start_time),
                "dur":big(sm.duration as u64),"cts":sm.rendering_offset,"sync":sm.is_sync})),
            Ok(Ok(None)) => out.ev(json!({"e":"uread","k":big(k64),"res":"none","msg":""})),
            Ok(Err(e)) => out.ev(json!({"e":"uread","k":big(k64),"res":err_class(&e),"msg":e.to_string()})),
            Err(p) => out.ev(json!({"e":"uread","k":big(k64),"res":"panic","msg":p})),
        }
        match guarded(|| r.sample_offset(1, k)) {
            Ok(Ok(o)) => out.ev(json!({"e":"uoffset","k":big(k64),"res":"ok","off":big(o)})),
            Ok(Err(e)) => out.ev(json!({"e":"uoffset","k":big(k64),"res":err_class(&e),"off":[]})),
            Err(_) => out.ev(json!({"e":"uoffset","k":big(k64),"res":"panic","off":[]})),
        }
    }
}
