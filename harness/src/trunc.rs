// C11: every proper prefix of a file through the real reader (pure recording).
use crate::mux::Out;
use crate::read::{img_of, read_event};
use crate::streams::{Ctl, Sparse};
use crate::util::*;
use mp4::*;
use serde_json::{json, Value};

pub fn run_case(case: &Value, out: &mut Out) {
    let id = case["id"].as_str().unwrap_or("?");
    out.ev(json!({"e":"reset","id":id}));
    let bytes = from_bytes(&case["file"]);
    out.ev(json!({"e":"file","img":img_of(&bytes),"has_init":false,"init":{},"expect_ok":true}));
    // sample ids of the complete file
    let mut ids: Vec<(u32, u32)> = Vec::new();
    if let Ok(Ok(r)) = guarded(|| Mp4Reader::read_header(Sparse::from_vec(bytes.clone()), bytes.len() as u64)) {
        let mut ts: Vec<u32> = r.tracks().keys().copied().collect();
        ts.sort();
        for t in ts {
            let n = guarded(|| r.sample_count(t)).ok().and_then(|x| x.ok()).unwrap_or(0).min(64);
            for k in 1..=n {
                ids.push((t, k));
            }
        }
    }
    let step = case["step"].as_u64().unwrap_or(1).max(1) as usize;
    let mut at = 0usize;
    while at < bytes.len() {
        let prefix = bytes[..at].to_vec();
        let n = prefix.len() as u64;
        let mut s = Ctl::new(Sparse::from_vec(prefix));
        s.budget = 64 * n + 4096;
        let r = guarded(|| Mp4Reader::read_header(s, n));
        match r {
            Ok(Ok(mut reader)) => {
                let mut reads = Vec::new();
                for &(t, k) in ids.iter() {
                    let mut e = read_event(&mut reader, t, k);
                    e.as_object_mut().unwrap().remove("e");
                    reads.push(e);
                }
                // budget flag is inside the reader's stream; a hang shows up as an I/O error there
                out.ev(json!({"e":"cut","at":at,"open":"ok","msg":"","budget_hit":false,"reads":reads}));
            }
            Ok(Err(e)) => {
                let hit = e.to_string().contains("operation budget exhausted");
                out.ev(json!({"e":"cut","at":at,"open":err_class(&e),"msg":e.to_string(),"budget_hit":hit,"reads":[]}));
            }
            Err(p) => out.ev(json!({"e":"cut","at":at,"open":"panic","msg":p,"budget_hit":false,"reads":[]})),
        }
        at += step;
    }
}
