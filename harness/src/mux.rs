// Mux suite: execute muxing histories (spec-generated or random) against the real
// Mp4Writer / Mp4Reader and record one event per public call.  Pure recording: no oracle here.
use crate::streams::{Ctl, Sparse};
use crate::util::*;
use mp4::*;
use serde_json::{json, Map, Value};
use std::convert::TryFrom;
use std::io::{Seek, SeekFrom, Write};

pub fn track_config(conf: &Value) -> std::result::Result<TrackConfig, String> {
    let kind = conf["kind"].as_str().unwrap_or("");
    let ttype = match conf["ttype"].as_str().unwrap_or("") {
        "video" => TrackType::Video,
        "audio" => TrackType::Audio,
        "subtitle" => TrackType::Subtitle,
        x => return Err(format!("ttype {}", x)),
    };
    let w = conf["w"].as_u64().unwrap_or(0) as u16;
    let h = conf["h"].as_u64().unwrap_or(0) as u16;
    let media_conf = match kind {
        "avc" => MediaConfig::AvcConfig(AvcConfig {
            width: w,
            height: h,
            seq_param_set: from_bytes(&conf["sps"]),
            pic_param_set: from_bytes(&conf["pps"]),
        }),
        "hevc" => MediaConfig::HevcConfig(HevcConfig { width: w, height: h }),
        "vp9" => MediaConfig::Vp9Config(Vp9Config { width: w, height: h }),
        "aac" => MediaConfig::AacConfig(AacConfig {
            bitrate: from_big(&conf["bitrate"]) as u32,
            profile: AudioObjectType::try_from(conf["profile"].as_u64().unwrap_or(0) as u8)
                .map_err(|e| e.to_string())?,
            freq_index: SampleFreqIndex::try_from(conf["freq"].as_u64().unwrap_or(0) as u8)
                .map_err(|e| e.to_string())?,
            chan_conf: ChannelConfig::try_from(conf["chan"].as_u64().unwrap_or(0) as u8)
                .map_err(|e| e.to_string())?,
        }),
        "ttxt" => MediaConfig::TtxtConfig(TtxtConfig {}),
        x => return Err(format!("kind {}", x)),
    };
    Ok(TrackConfig {
        track_type: ttype,
        timescale: from_big(&conf["timescale"]) as u32,
        language: String::from_utf8_lossy(&from_bytes(&conf["lang"])).to_string(),
        media_conf,
    })
}

pub fn mp4_config(cfg: &Value) -> Mp4Config {
    let fcc = |v: &Value| {
        let b = from_bytes(v);
        let mut a = [0u8; 4];
        for i in 0..4.min(b.len()) {
            a[i] = b[i];
        }
        FourCC::from(a)
    };
    Mp4Config {
        major_brand: fcc(&cfg["major"]),
        minor_version: from_big(&cfg["minor"]) as u32,
        compatible_brands: cfg["brands"].as_array().map(|a| a.iter().map(fcc).collect()).unwrap_or_default(),
        timescale: from_big(&cfg["timescale"]) as u32,
    }
}

fn res_of<T>(r: &std::result::Result<Result<T>, String>) -> (Value, Value) {
    match r {
        Ok(Ok(_)) => (json!("ok"), json!("")),
        Ok(Err(e)) => (json!(err_class(e)), json!(e.to_string())),
        Err(p) => (json!("panic"), json!(p)),
    }
}

pub struct Out<'a> {
    pub w: &'a mut dyn Write,
    pub events: u64,
}
impl<'a> Out<'a> {
    pub fn ev(&mut self, v: Value) {
        serde_json::to_writer(&mut *self.w, &v).unwrap();
        self.w.write_all(b"\n").unwrap();
        self.events += 1;
    }
}

/// image of the produced stream for the `end` event: everything when small, else head + tail
pub fn image_of(s: &Sparse, start: u64) -> Value {
    let len = s.len;
    let total = len.saturating_sub(start);
    let segs = if total <= 200_000 {
        vec![json!({"off": big(start), "bytes": bytes_val(&s.read_range(start, total as usize))})]
    } else {
        let head = 4096u64;
        let tail = 65536u64;
        vec![
            json!({"off": big(start), "bytes": bytes_val(&s.read_range(start, head as usize))}),
            json!({"off": big(len - tail), "bytes": bytes_val(&s.read_range(len - tail, tail as usize))}),
        ]
    };
    json!({"start": big(start), "len": big(len), "segs": segs})
}

fn view_of<R: std::io::Read + Seek>(r: &Mp4Reader<R>) -> Value {
    let mut ids: Vec<u32> = r.tracks().keys().copied().collect();
    ids.sort();
    let mut tv = Vec::new();
    for id in ids.iter() {
        let t = &r.tracks()[id];
        let dur = guarded(|| t.duration());
        let avc = t
            .trak
            .mdia
            .minf
            .stbl
            .stsd
            .avc1
            .as_ref()
            .map(|a| {
                vec![
                    a.avcc.avc_profile_indication,
                    a.avcc.profile_compatibility,
                    a.avcc.avc_level_indication,
                ]
            })
            .unwrap_or_default();
        let esds = t.trak.mdia.minf.stbl.stsd.mp4a.as_ref().and_then(|m| m.esds.as_ref());
        tv.push(json!({
            "id": *id,
            "ttype": t.track_type().map(|x| x.to_string().to_lowercase()).unwrap_or("err".into()),
            "mtype": t.media_type().map(|x| x.to_string()).unwrap_or("err".into()),
            "fourcc": t.box_type().map(|x| bytes_val(&x.value)).unwrap_or(json!([])),
            "w": t.width(), "h": t.height(),
            "lang": bytes_val(t.language().as_bytes()),
            "timescale": big(t.timescale() as u64),
            "dur_ok": dur.is_ok(),
            "dur_us": big128(dur.map(|d| d.as_micros()).unwrap_or(0)),
            "sps": t.sequence_parameter_set().map(bytes_val).unwrap_or(json!([])),
            "pps": t.picture_parameter_set().map(bytes_val).unwrap_or(json!([])),
            "avc": bytes_val(&avc),
            "aot": esds.map(|e| e.es_desc.dec_config.dec_specific.profile as i64).unwrap_or(-1),
            "aot_ok": t.audio_profile().is_ok(),
            "freq": esds.map(|e| e.es_desc.dec_config.dec_specific.freq_index as i64).unwrap_or(-1),
            "chan": esds.map(|e| e.es_desc.dec_config.dec_specific.chan_conf as i64).unwrap_or(-1),
            "bitrate": big(esds.map(|e| e.es_desc.dec_config.avg_bitrate as u64).unwrap_or(0)),
        }));
    }
    let mdur = guarded(|| r.duration());
    json!({
        "major": bytes_val(&r.major_brand().value),
        "minor": big(r.minor_version() as u64),
        "brands": r.compatible_brands().iter().map(|b| bytes_val(&b.value)).collect::<Vec<_>>(),
        "timescale": big(r.timescale() as u64),
        "dur_ok": mdur.is_ok(),
        "dur_ms": big128(mdur.map(|d| d.as_millis()).unwrap_or(0)),
        "tracks": tv,
    })
}

fn sample_event(t: u32, k: u32, r: std::result::Result<Result<Option<Mp4Sample>>, String>) -> Value {
    match r {
        Ok(Ok(Some(s))) => {
            let (len, h, b) = sample_fields(&s.bytes);
            json!({"e":"read","t":t,"k":k,"res":"some","s":{
                "len":len,"h":h,"b":b,"dur":big(s.duration as u64),"cts":s.rendering_offset,
                "sync":s.is_sync,"start":big(s.start_time)}})
        }
        Ok(Ok(None)) => json!({"e":"read","t":t,"k":k,"res":"none"}),
        Ok(Err(e)) => json!({"e":"read","t":t,"k":k,"res":err_class(&e),"msg":e.to_string()}),
        Err(p) => json!({"e":"read","t":t,"k":k,"res":"panic","msg":p}),
    }
}

/// ids to read for a track of n samples: everything when short, else boundaries + a seeded sample
fn ids_to_read(n: u32, rng: &mut Rng) -> Vec<u32> {
    let mut v: Vec<u32> = if n <= 48 {
        (0..=n + 2).collect()
    } else {
        let mut v = vec![0, 1, 2, 3, n - 1, n, n + 1, n + 2];
        for _ in 0..40 {
            v.push(rng.range(1, n as u64) as u32);
        }
        v
    };
    v.sort();
    v.dedup();
    v
}

/// Write the case once; returns the stream (None if the writer panicked/failed before producing
/// a file), logging events to `out` when given.
pub fn mux_once(case: &Value, mut out: Option<&mut Out>) -> Option<(Sparse, u64, bool)> {
    let pos = from_big(&case["pos"]);
    let mut s = Sparse::new();
    s.seek(SeekFrom::Start(pos)).unwrap();
    // calls marked "fault" run on a stream that fails during that call (seek: the next stream call;
    // write: after `written` more bytes); the history goes on afterwards (C17: no later call panics)
    let s = Ctl::new(s);
    let arm = s.arm_shared.clone();
    let mut faulted = false;
    let cfg = mp4_config(&case["cfg"]);
    let mut allok = true;
    let r = guarded(|| Mp4Writer::write_start(s, &cfg));
    let (res, msg) = res_of(&r);
    if let Some(o) = out.as_deref_mut() {
        o.ev(json!({"e":"start","cfg":case["cfg"],"pos":big(pos),"res":res,"msg":msg}));
    }
    let mut w = match r {
        Ok(Ok(w)) => w,
        _ => return None,
    };
    let empty = Vec::new();
    for call in case["calls"].as_array().unwrap_or(&empty) {
        match call["op"].as_str().unwrap_or("") {
            "add" => {
                let (res, msg) = match track_config(&call["conf"]) {
                    Err(e) => (json!("err"), json!(format!("harness: {}", e))),
                    Ok(tc) => {
                        let r = guarded(|| w.add_track(&tc));
                        res_of(&r)
                    }
                };
                if res != "ok" {
                    allok = false;
                }
                let stop = res == "panic";
                if let Some(o) = out.as_deref_mut() {
                    o.ev(json!({"e":"add","conf":call["conf"],"res":res,"msg":msg}));
                }
                if stop {
                    return None;
                }
            }
            "write" => {
                let t = call["t"].as_u64().unwrap_or(0) as u32;
                let len = call["len"].as_u64().unwrap_or(0) as usize;
                let bytes = payload(len, call["fill"].as_u64().unwrap_or(0));
                let (l, h, b) = sample_fields(&bytes);
                let smp = Mp4Sample {
                    start_time: from_big(&call["start"]),
                    duration: from_big(&call["dur"]) as u32,
                    rendering_offset: call["cts"].as_i64().unwrap_or(0) as i32,
                    is_sync: call["sync"].as_bool().unwrap_or(false),
                    bytes: mp4::Bytes::from(bytes),
                };
                let fault = call["fault"].as_str().unwrap_or("");
                match fault {
                    "seek" => arm.set(1),
                    "write" => arm.set(2 + call["written"].as_u64().unwrap_or(0)),
                    _ => {}
                }
                let r = guarded(|| w.write_sample(t, &smp));
                let fired = fault != "" && arm.get() == 0;
                arm.set(0);
                faulted |= fired;
                let (res, msg) = res_of(&r);
                let valid = call["valid"].as_bool().unwrap_or(true);
                if res != "ok" && valid {
                    allok = false;
                }
                let stop = res == "panic" || (res == "ioerr" && !fired);
                if let Some(o) = out.as_deref_mut() {
                    o.ev(json!({"e":"write","t":t,"s":{"len":l,"h":h,"b":b,"dur":call["dur"],
                        "cts":call["cts"],"sync":call["sync"]},"res":res,"msg":msg,"fault":fault,"fired":fired}));
                }
                if stop {
                    return None;
                }
            }
            _ => {}
        }
    }
    let r = guarded(|| w.write_end());
    let (res, msg) = res_of(&r);
    let s = w.into_writer().inner;
    if faulted {
        if let Some(o) = out.as_deref_mut() {
            o.ev(json!({"e":"end","res":res,"msg":msg,"allok":allok,"faulted":true}));
        }
        return None;
    }
    if let Some(o) = out.as_deref_mut() {
        if res == "ok" {
            o.ev(json!({"e":"end","res":res,"img":image_of(&s, pos),"faulted":false}));
        } else {
            o.ev(json!({"e":"end","res":res,"msg":msg,"allok":allok,"faulted":false}));
        }
    }
    if res == "ok" {
        Some((s, pos, allok))
    } else {
        None
    }
}

/// Full run of one case: mux, read back, determinism re-runs.
pub fn run_case(case: &Value, out: &mut Out) {
    let id = case["id"].as_str().unwrap_or("?").to_string();
    out.ev(json!({"e":"reset","id":id}));
    let mut rng = Rng::new(case["seed"].as_u64().unwrap_or(7));
    let Some((s, pos, _allok)) = mux_once(case, Some(out)) else { return };
    let end = s.len;

    // determinism: the same history again (C15)
    if case["twice"].as_bool().unwrap_or(true) {
        // the second run may be asked to start in another second of the wall clock than the first
        if let Some(ms) = case["twice_gap_ms"].as_u64() {
            std::thread::sleep(std::time::Duration::from_millis(ms));
        }
        let again = mux_once(case, None);
        let same = again.as_ref().map(|(s2, _, _)| s2.content_hash() == s.content_hash() && s2.len == s.len).unwrap_or(false);
        out.ev(json!({"e":"twice","what":"muxing the same history twice gives different bytes","same":same,
            "detail": id}));
    }

    // read back through the library's reader (structure-only cases stop at the produced bytes)
    if case["readback"].as_bool() == Some(false) {
        return;
    }
    // "small": the samples above 1 MiB of a history of several GiB are located but not read
    let mut big_ids: Vec<(u32, u32)> = Vec::new();
    if case["readback"].as_str() == Some("small") {
        let mut counts: std::collections::HashMap<u32, u32> = std::collections::HashMap::new();
        for c in case["calls"].as_array().map(|v| v.as_slice()).unwrap_or(&[]) {
            if c["op"].as_str() == Some("write") && c["valid"].as_bool().unwrap_or(true) {
                let t = c["t"].as_u64().unwrap_or(0) as u32;
                let k = counts.entry(t).or_insert(0);
                *k += 1;
                if c["len"].as_u64().unwrap_or(0) > (1 << 20) {
                    big_ids.push((t, *k));
                }
            }
        }
    }
    let mut rs = s.clone();
    rs.seek(SeekFrom::Start(pos)).unwrap();
    let r = guarded(|| Mp4Reader::read_header(rs, end));
    let mut reader = match r {
        Ok(Ok(r)) => r,
        Ok(Err(e)) => {
            out.ev(json!({"e":"open","res":err_class(&e),"msg":e.to_string()}));
            return;
        }
        Err(p) => {
            out.ev(json!({"e":"open","res":"panic","msg":p}));
            return;
        }
    };
    let mut ids: Vec<u32> = reader.tracks().keys().copied().collect();
    ids.sort();
    out.ev(json!({"e":"open","res":"ok","tracks":ids,"view":view_of(&reader)}));

    // opening the same bytes twice yields equal structures (C15)
    {
        let mut rs2 = s.clone();
        rs2.seek(SeekFrom::Start(pos)).unwrap();
        let same = match guarded(|| Mp4Reader::read_header(rs2, end)) {
            Ok(Ok(r2)) => {
                r2.moov == reader.moov
                    && r2.ftyp == reader.ftyp
                    && format!("{:?}", r2.moov) == format!("{:?}", reader.moov)
            }
            _ => false,
        };
        out.ev(json!({"e":"twice","what":"opening the same bytes twice gives different structures","same":same,"detail":id}));
    }

    let ntr = ids.len() as u32;
    for t in 0..=ntr + 1 {
        let r = guarded(|| reader.sample_count(t));
        match r {
            Ok(Ok(n)) => out.ev(json!({"e":"count","t":t,"res":"ok","n":n})),
            Ok(Err(e)) => out.ev(json!({"e":"count","t":t,"res":err_class(&e),"n":0})),
            Err(p) => out.ev(json!({"e":"count","t":t,"res":"panic","n":0,"msg":p})),
        }
    }
    for t in 1..=ntr {
        let n = reader.sample_count(t).unwrap_or(0);
        for k in ids_to_read(n, &mut rng) {
            if !big_ids.contains(&(t, k)) {
                let r = guarded(|| reader.read_sample(t, k));
                out.ev(sample_event(t, k, r));
            }
            let r = guarded(|| reader.sample_offset(t, k));
            match r {
                Ok(Ok(o)) => out.ev(json!({"e":"offset","t":t,"k":k,"res":"ok","off":big(o)})),
                Ok(Err(e)) => out.ev(json!({"e":"offset","t":t,"k":k,"res":err_class(&e),"off":[]})),
                Err(p) => out.ev(json!({"e":"offset","t":t,"k":k,"res":"panic","off":[],"msg":p})),
            }
        }
    }
}

// ---------------------------------------------------------------------------------------
// random histories in the documented-valid domain (C01/C02/C14)

fn lang(rng: &mut Rng) -> Vec<u8> {
    if rng.chance(1, 3) {
        b"und".to_vec()
    } else {
        (0..3).map(|_| b'a' + rng.below(26) as u8).collect()
    }
}

pub fn random_conf(rng: &mut Rng) -> Value {
    let ts = *rng.pick(&[1u64, 2, 25, 600, 1000, 12800, 44100, 48000, 90000, 1_000_000]);
    let ts = if rng.chance(1, 10) { rng.range(1, 200_000) } else { ts };
    let dims = [0u64, 1, 2, 320, 640, 1920, 4096, 32767, 32768, 65535];
    let mut m = Map::new();
    let kind = *rng.pick(&["avc", "hevc", "vp9", "aac", "ttxt"]);
    m.insert("kind".into(), json!(kind));
    m.insert(
        "ttype".into(),
        json!(match kind {
            "aac" => "audio",
            "ttxt" => "subtitle",
            _ => "video",
        }),
    );
    m.insert("timescale".into(), big(ts));
    m.insert("lang".into(), bytes_val(&lang(rng)));
    let video = matches!(kind, "avc" | "hevc" | "vp9");
    m.insert("w".into(), json!(if video { *rng.pick(&dims) } else { 0 }));
    m.insert("h".into(), json!(if video { *rng.pick(&dims) } else { 0 }));
    let (sps, pps) = if kind == "avc" {
        let n = *rng.pick(&[4usize, 5, 9, 31, 64]);
        let mut sps: Vec<u8> = (0..n).map(|_| rng.below(256) as u8).collect();
        sps[0] = 0x67;
        sps[1] = *rng.pick(&[66u8, 77, 88, 100, 110, 122, 244]);
        let pn = *rng.pick(&[1usize, 4, 5, 16]);
        let pps: Vec<u8> = (0..pn).map(|_| rng.below(256) as u8).collect();
        (sps, pps)
    } else {
        (vec![], vec![])
    };
    m.insert("sps".into(), bytes_val(&sps));
    m.insert("pps".into(), bytes_val(&pps));
    let aots: Vec<u64> = (1..=46).filter(|x| ![10, 11, 18, 31].contains(x)).collect();
    let aac = kind == "aac";
    m.insert("profile".into(), json!(if aac { if rng.chance(1, 2) { 2 } else { *rng.pick(&aots) } } else { 0 }));
    m.insert("freq".into(), json!(if aac { rng.below(13) } else { 0 }));
    m.insert("chan".into(), json!(if aac { rng.range(1, 7) } else { 0 }));
    m.insert(
        "bitrate".into(),
        big(if aac { *rng.pick(&[0u64, 1, 64000, 128000, 0x7fff_ffff, 0xffff_ffff]) } else { 0 }),
    );
    Value::Object(m)
}

pub fn random_case(seed: u64, idx: u64) -> Value {
    let mut rng = Rng::new(seed.wrapping_mul(1_000_003).wrapping_add(idx));
    let ntr = *rng.pick(&[1u64, 1, 2, 2, 3, 5]);
    let mts = *rng.pick(&[1u64, 600, 1000, 1000, 90000, 1_000_000]);
    let brands_all: [&[u8; 4]; 5] = [b"isom", b"iso2", b"avc1", b"mp41", b"dash"];
    let nb = rng.below(4);
    let brands: Vec<Value> = (0..nb).map(|_| bytes_val(*rng.pick(&brands_all))).collect();
    let cfg = json!({"major": bytes_val(*rng.pick(&brands_all)), "minor": big(*rng.pick(&[0u64, 1, 512, 0xffff_ffff])),
        "brands": brands, "timescale": big(mts)});
    let mut calls = Vec::new();
    let mut confs = Vec::new();
    for _ in 0..ntr {
        let c = random_conf(&mut rng);
        confs.push(c.clone());
        calls.push(json!({"op":"add","conf":c}));
    }
    // total samples: mostly short, sometimes long
    let total = match rng.below(10) {
        0 => 0,
        1..=5 => rng.range(1, 12),
        6..=8 => rng.range(10, 60),
        _ => rng.range(60, 400),
    };
    // per-track styles
    let styles: Vec<u64> = (0..ntr).map(|_| rng.below(6)).collect();
    let mut budget: Vec<u64> = vec![0; ntr as usize]; // cumulative duration per track, kept < 2^31
    let mut cnt: Vec<u64> = vec![0; ntr as usize];
    for _ in 0..total {
        // rejected calls sprinkled in
        if rng.chance(1, 12) {
            let t = if rng.chance(1, 2) { 0 } else { ntr + 1 + rng.below(3) };
            calls.push(json!({"op":"write","t":t,"len":rng.below(5),"fill":rng.next()>>8,"dur":big(rng.below(1000)),
                "cts":0,"sync":true,"valid":false}));
        }
        let t = rng.below(ntr) as usize;
        let tts = from_big(&confs[t]["timescale"]);
        let st = styles[t];
        let len = match st {
            0 => 7,                                             // constant size
            1 => if rng.chance(1, 4) { 0 } else { rng.range(1, 40) }, // zeros mixed in
            2 => 0,                                             // only empty samples
            _ => match rng.below(10) { 0 => 0, 1..=6 => rng.range(1, 32), 7..=8 => rng.range(33, 700), _ => rng.range(700, 4096) },
        };
        let mut dur = match rng.below(8) {
            0 => 0,
            1 => 1,
            2 => tts,                     // exactly one chunk
            3 => tts.saturating_sub(1),
            4 => tts / 3 + 1,
            5 => rng.range(1, 5000),
            6 => 1u64 << rng.below(24),
            _ => tts / 25 + 1,
        };
        if st == 0 && rng.chance(3, 4) {
            dur = tts / 30 + 1;
        }
        if budget[t] + dur >= (1u64 << 31) - 1 {
            dur = 0;
        }
        budget[t] += dur;
        let cts: i64 = match (st, rng.below(6)) {
            (0, _) | (_, 0..=2) => 0,
            (_, 3) => rng.range(1, 5000) as i64,
            (_, 4) => -(rng.range(1, 5000) as i64),
            _ => *rng.pick(&[i32::MAX as i64, i32::MIN as i64, 1, -1]),
        };
        let sync = match st % 3 {
            0 => true,
            1 => cnt[t] % 5 == 0,
            _ => rng.chance(1, 4),
        };
        let sync = if styles[t] == 5 { false } else { sync }; // a track with no sync sample at all
        cnt[t] += 1;
        calls.push(json!({"op":"write","t":t as u64 + 1,"len":len,"fill":rng.next()>>8,"dur":big(dur),
            "cts":cts,"sync":sync,"valid":true}));
    }
    json!({"id": format!("rnd-{}-{}", seed, idx), "seed": seed ^ idx, "cfg": cfg, "pos": big(0), "calls": calls})
}
