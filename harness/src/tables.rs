// Leg C input for C03: large random *consistent* sample-table sets, rendered with the library's
// own box writers (labelled as such: the wire format of these boxes is the business of C04/C05).
// The expected lookups are NOT computed here: Trace_Read decodes the bytes and applies
// SampleTable!Sem.
use crate::util::*;
use mp4::*;
use serde_json::{json, Value};

fn fourcc(s: &[u8; 4]) -> FourCC {
    FourCC::from(*s)
}

pub fn random_tables_case(seed: u64, idx: u64) -> Value {
    let mut rng = Rng::new(seed.wrapping_mul(7_000_003).wrapping_add(idx));
    let ntr = *rng.pick(&[1usize, 1, 2, 3]);
    let mut moov = MoovBox::default();
    moov.mvhd.timescale = 1000;
    // per track: tables; chunks are laid out round-robin in one mdat that precedes moov
    struct T {
        trak: TrakBox,
        chunks: Vec<Vec<u8>>,
        offs: Vec<u64>,
        co64: bool,
    }
    let mut ts: Vec<T> = Vec::new();
    let mut total_n = 0u64;
    for t in 0..ntr {
        let n = match rng.below(6) {
            0 => rng.range(0, 3),
            1..=3 => rng.range(4, 40),
            _ => rng.range(40, 300),
        } as u32;
        total_n += n as u64;
        let mut trak = TrakBox::default();
        trak.tkhd.track_id = t as u32 + 1;
        trak.mdia.mdhd.timescale = *rng.pick(&[1u32, 1000, 44100, 90000]);
        let audio = rng.chance(1, 2);
        if audio {
            trak.mdia.hdlr.handler_type = fourcc(b"soun");
            trak.mdia.minf.smhd = Some(SmhdBox::default());
            trak.mdia.minf.stbl.stsd.mp4a = Some(Mp4aBox::default());
        } else {
            trak.mdia.hdlr.handler_type = fourcc(b"vide");
            trak.mdia.minf.vmhd = Some(VmhdBox::default());
            trak.mdia.minf.stbl.stsd.avc1 = Some(Avc1Box::default());
        }
        let stbl = &mut trak.mdia.minf.stbl;
        // sizes
        let sizes: Vec<u32> = if rng.chance(1, 4) && n > 0 {
            let c = rng.range(1, 9) as u32;
            stbl.stsz.sample_size = c;
            stbl.stsz.sample_count = n;
            vec![c; n as usize]
        } else {
            let v: Vec<u32> = (0..n).map(|_| if rng.chance(1, 6) { 0 } else { rng.range(1, 24) as u32 }).collect();
            stbl.stsz.sample_size = 0;
            stbl.stsz.sample_count = n;
            stbl.stsz.sample_sizes = v.clone();
            v
        };
        // chunking
        let mut spc: Vec<u32> = Vec::new();
        let mut left = n;
        let style = rng.below(3);
        while left > 0 {
            let c = match style {
                0 => rng.range(1, 4) as u32,
                1 => 5,
                _ => if rng.chance(3, 4) && !spc.is_empty() { *spc.last().unwrap() } else { rng.range(1, 7) as u32 },
            }
            .min(left);
            spc.push(c);
            left -= c;
        }
        for (i, c) in spc.iter().enumerate() {
            let new_run = i == 0 || spc[i - 1] != *c || rng.chance(1, 5); // non-canonical splits too
            if new_run {
                stbl.stsc.entries.push(mp4::verif::StscEntry {
                    first_chunk: i as u32 + 1,
                    samples_per_chunk: *c,
                    sample_description_index: 1,
                    first_sample: 0,
                });
            }
        }
        // times
        let mut left = n;
        while left > 0 {
            let c = rng.range(1, left.min(12) as u64) as u32;
            let d = *rng.pick(&[0u32, 1, 2, 512, 1001, 3000]);
            stbl.stts.entries.push(mp4::verif::SttsEntry { sample_count: c, sample_delta: d });
            left -= c;
        }
        if rng.chance(1, 2) {
            let mut ctts = CttsBox::default();
            let mut left = n;
            while left > 0 {
                let c = rng.range(1, left.min(7) as u64) as u32;
                ctts.entries.push(mp4::verif::CttsEntry { sample_count: c, sample_offset: *rng.pick(&[0i32, 1, -1, 1000, -2000, i32::MAX, i32::MIN]) });
                left -= c;
            }
            stbl.ctts = Some(ctts);
        }
        match rng.below(4) {
            0 => {}
            1 => stbl.stss = Some(StssBox::default()),
            _ => {
                let mut s = StssBox::default();
                for k in 1..=n {
                    if rng.chance(1, 4) {
                        s.entries.push(k);
                    }
                }
                stbl.stss = Some(s);
            }
        }
        // chunk payloads
        let mut chunks = Vec::new();
        let mut k = 0usize;
        for c in spc.iter() {
            let mut b = Vec::new();
            for _ in 0..*c {
                b.extend(payload(sizes[k] as usize, (idx << 20) ^ ((t as u64) << 12) ^ k as u64));
                k += 1;
            }
            chunks.push(b);
        }
        let co64 = rng.chance(1, 3);
        ts.push(T { trak, chunks, offs: Vec::new(), co64 });
    }
    // layout: ftyp, mdat (chunks round-robin), moov
    let ftyp = FtypBox { major_brand: fourcc(b"isom"), minor_version: 0, compatible_brands: vec![fourcc(b"isom")] };
    let mut file: Vec<u8> = Vec::new();
    ftyp.write_box(&mut file).unwrap();
    let mdat_pos = file.len();
    file.extend_from_slice(&[0, 0, 0, 0, b'm', b'd', b'a', b't']);
    let maxc = ts.iter().map(|t| t.chunks.len()).max().unwrap_or(0);
    for c in 0..maxc {
        for t in ts.iter_mut() {
            if c < t.chunks.len() {
                t.offs.push(file.len() as u64);
                file.extend_from_slice(&t.chunks[c]);
            }
        }
    }
    let mdat_size = (file.len() - mdat_pos) as u32;
    file[mdat_pos..mdat_pos + 4].copy_from_slice(&mdat_size.to_be_bytes());
    for t in ts.iter_mut() {
        if t.co64 {
            let mut b = Co64Box::default();
            b.entries = t.offs.clone();
            t.trak.mdia.minf.stbl.co64 = Some(b);
        } else {
            let mut b = StcoBox::default();
            b.entries = t.offs.iter().map(|&o| o as u32).collect();
            t.trak.mdia.minf.stbl.stco = Some(b);
        }
        moov.traks.push(t.trak.clone());
    }
    moov.write_box(&mut file).unwrap();
    json!({"id": format!("tbl-{}-{}", seed, idx), "prop": "C03", "file": bytes_val(&file), "n": total_n,
        "expect_ok": true, "rendered_by": "library writers"})
}
