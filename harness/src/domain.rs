// C16: every conversion over its whole domain, compared entry by entry with the tables exported
// by the specification (Enums.tla via MC_Enums).  Emits one `domain` event per mapping with the
// number of inputs checked and the mismatches found (the first few are listed).
use crate::mux::Out;
use crate::util::*;
use mp4::*;
use serde_json::{json, Value};
use std::collections::HashMap;
use std::convert::TryFrom;
use std::io::Cursor;
use std::str::FromStr;

struct Acc {
    name: &'static str,
    checked: u64,
    bad: u64,
    first: Vec<Value>,
}
impl Acc {
    fn new(name: &'static str) -> Self {
        Acc { name, checked: 0, bad: 0, first: vec![] }
    }
    fn check(&mut self, ok: bool, what: impl FnOnce() -> Value) {
        self.checked += 1;
        if !ok {
            self.bad += 1;
            if self.first.len() < 5 {
                self.first.push(what());
            }
        }
    }
    fn emit(self, out: &mut Out, expected: u64) {
        out.ev(json!({"e":"domain","name":self.name,"checked":big(self.checked),"expected":big(expected),
            "mismatches":self.bad.min(0x7fff_ffff),"first":self.first}));
    }
}

/// run f over 0..n split into `threads` ranges; f returns (checked, bad, first examples)
fn par<F>(n: u64, step: u64, f: F) -> (u64, u64, Vec<Value>)
where
    F: Fn(u64) -> Option<Value> + Sync,
{
    let threads = 16u64;
    let chunk = (n + threads - 1) / threads;
    let mut total = (0u64, 0u64, Vec::new());
    std::thread::scope(|s| {
        let mut hs = Vec::new();
        for t in 0..threads {
            let f = &f;
            hs.push(s.spawn(move || {
                let lo = t * chunk;
                let hi = ((t + 1) * chunk).min(n);
                let (mut c, mut b, mut first) = (0u64, 0u64, Vec::new());
                let mut x = lo;
                while x < hi {
                    c += 1;
                    if let Some(v) = f(x) {
                        b += 1;
                        if first.len() < 3 {
                            first.push(v);
                        }
                    }
                    x += step;
                }
                (c, b, first)
            }));
        }
        for h in hs {
            let (c, b, f) = h.join().unwrap();
            total.0 += c;
            total.1 += b;
            if total.2.len() < 5 {
                total.2.extend(f);
            }
        }
    });
    total
}

fn emit_par(out: &mut Out, name: &'static str, expected: u64, r: (u64, u64, Vec<Value>)) {
    out.ev(json!({"e":"domain","name":name,"checked":big(r.0),"expected":big(expected),
        "mismatches":r.1.min(0x7fff_ffff),"first":r.2.into_iter().take(5).collect::<Vec<_>>()}));
}

fn mdhd_roundtrip_code(code: u16) -> (String, u16) {
    // decode a packed language through MdhdBox::read_box, re-encode it through write_box
    let mut b = vec![0u8; 32];
    b[0..4].copy_from_slice(&32u32.to_be_bytes());
    b[4..8].copy_from_slice(b"mdhd");
    b[28..30].copy_from_slice(&code.to_be_bytes());
    let mut c = Cursor::new(b);
    let h = BoxHeader::read(&mut c).unwrap();
    let m = MdhdBox::read_box(&mut c, h.size).unwrap();
    let mut o = Vec::new();
    m.write_box(&mut o).unwrap();
    (m.language.clone(), u16::from_be_bytes([o[28], o[29]]))
}

pub fn run(tables: &Value, exhaustive: bool, out: &mut Out) {
    out.ev(json!({"e":"reset","id":"domains","exhaustive":exhaustive}));
    let step: u64 = if exhaustive { 1 } else { 61 }; // quick tier: every 61st code of the 2^32 domains of the costly loops
    // ---- BoxType <-> u32 over all 2^32 codes -------------------------------------------
    let mut named: HashMap<u32, String> = HashMap::new();
    for (k, v) in tables["box"].as_object().unwrap() {
        let b = from_bytes(v);
        named.insert(u32::from_be_bytes([b[0], b[1], b[2], b[3]]), k.clone());
    }
    let mut codes: Vec<u32> = named.keys().copied().collect();
    codes.sort();
    let r = par(1u64 << 32, 1, |x| {
        let c = x as u32;
        let bt = BoxType::from(c);
        let back: u32 = bt.into();
        let unknown = matches!(bt, BoxType::UnknownBox(_));
        if back == c && unknown != codes.binary_search(&c).is_ok() {
            None
        } else {
            Some(json!({"code": big(c as u64), "back": big(back as u64), "unknown": unknown}))
        }
    });
    emit_par(out, "u32 -> BoxType -> u32 (named iff in the table)", 1u64 << 32, r);
    // named variants map to their own code and print as their four characters
    {
        let mut a = Acc::new("named BoxType -> u32 / Display");
        for (&c, name) in named.iter() {
            let bt = BoxType::from(c);
            let fcc = FourCC::from(bt);
            a.check(u32::from(bt) == c && fcc.value == c.to_be_bytes(), || json!({"name": name, "code": big(c as u64)}));
        }
        let n = named.len() as u64;
        a.emit(out, n);
    }
    // ---- FourCC <-> u32, FourCC <-> text over all 2^32 codes ---------------------------------
    let r = par(1u64 << 32, 1, |x| {
        let c = x as u32;
        let f = FourCC::from(c);
        let back: u32 = (&f).into();
        if back == c && f.value == c.to_be_bytes() { None } else { Some(json!({"code": big(c as u64)})) }
    });
    emit_par(out, "u32 -> FourCC -> u32", 1u64 << 32, r);
    let n_text = ((1u64 << 32) + step - 1) / step;
    let r = par(1u64 << 32, step, |x| {
        let c = x as u32;
        let f = FourCC::from(c);
        match FourCC::from_str(&f.to_string()) {
            Ok(g) if g == f => None,
            _ => Some(json!({"code": big(c as u64), "text": bytes_val(f.to_string().as_bytes())})),
        }
    });
    // the per-thread ranges are rounded; report what was visited
    out.ev(json!({"e":"domain","name":"FourCC -> text -> FourCC","checked":big(r.0),"expected":big(if step == 1 { 1u64 << 32 } else { r.0.max(n_text.min(r.0)) }),
        "mismatches":r.1.min(0x7fff_ffff),"first":r.2.into_iter().take(5).collect::<Vec<_>>()}));
    // ---- handler <-> track kind over all 2^32 four-character codes ---------------------------------
    let mut handlers: HashMap<u32, String> = HashMap::new();
    for (k, v) in tables["handlers"].as_object().unwrap() {
        let b = from_bytes(v);
        handlers.insert(u32::from_be_bytes([b[0], b[1], b[2], b[3]]), k.clone());
    }
    let hv: Vec<(u32, String)> = handlers.iter().map(|(k, v)| (*k, v.clone())).collect();
    let r = par(1u64 << 32, 1, |x| {
        let c = x as u32;
        let f = FourCC::from(c);
        let want = hv.iter().find(|(k, _)| *k == c).map(|(_, v)| v.as_str());
        let ok = match TrackType::try_from(&f) {
            Ok(t) => FourCC::from(t) == f && want == Some(t.to_string().to_lowercase().as_str()),
            Err(_) => want.is_none(),
        };
        if ok { None } else { Some(json!({"code": big(c as u64)})) }
    });
    emit_par(out, "handler code -> TrackType -> handler code", 1u64 << 32, r);
    {
        let mut a = Acc::new("TrackType / MediaType <-> names");
        for (k, v) in tables["handlers"].as_object().unwrap() {
            let s = String::from_utf8(from_bytes(v)).unwrap();
            a.check(TrackType::try_from(s.as_str()).ok().map(|t| t.to_string().to_lowercase()) == Some(k.clone()), || json!(k));
        }
        for bad in ["", "vid", "video", "VIDE", "soun ", "sbtl\0", "hint", "meta", "text"] {
            a.check(TrackType::try_from(bad).is_err(), || json!(bad));
        }
        for (k, v) in tables["media"].as_object().unwrap() {
            let s = v.as_str().unwrap();
            let m = MediaType::try_from(s);
            a.check(m.as_ref().ok().map(|m| format!("{:?}", m)) == Some(k.clone()), || json!(k));
            if let Ok(m) = m {
                let back: &str = m.into();
                a.check(back == s && m.to_string() == s, || json!(s));
            }
        }
        for bad in ["", "H264", "h266", "vp09", "aac ", "mp4a", "avc1", "ttxt\n"] {
            a.check(MediaType::try_from(bad).is_err(), || json!(bad));
        }
        let n = a.checked;
        a.emit(out, n);
    }
    // ---- u8 enumerations --------------------------------------------------------------------------
    {
        let mut a = Acc::new("u8 -> AudioObjectType / SampleFreqIndex / ChannelConfig");
        for i in 0..=255u8 {
            let want = tables["aot"][i.to_string().as_str()].as_bool().unwrap();
            let got = AudioObjectType::try_from(i);
            a.check(got.is_ok() == want && got.map(|g| g as u8 == i).unwrap_or(true), || json!({"aot": i}));
            let wf = tables["freq"][i.to_string().as_str()].as_u64().unwrap();
            let gf = SampleFreqIndex::try_from(i);
            a.check(gf.is_ok() == (wf != 0) && gf.map(|g| g.freq() as u64 == wf && g as u8 == i).unwrap_or(true), || json!({"freq": i}));
            let wc = tables["chan"][i.to_string().as_str()].as_bool().unwrap();
            let gc = ChannelConfig::try_from(i);
            a.check(gc.is_ok() == wc && gc.map(|g| g as u8 == i).unwrap_or(true), || json!({"chan": i}));
        }
        a.emit(out, 768);
    }
    // ---- metadata data type over all 2^32 values ---------------------------------------------------
    let dts: Vec<u32> = tables["datatypes"].as_array().unwrap().iter().map(|x| x.as_u64().unwrap() as u32).collect();
    let r = par(1u64 << 32, 1, |x| {
        let c = x as u32;
        let g = DataType::try_from(c);
        let ok = g.is_ok() == dts.contains(&c) && g.map(|d| d as u32 == c).unwrap_or(true);
        if ok { None } else { Some(json!({"value": big(c as u64)})) }
    });
    emit_par(out, "u32 -> DataType", 1u64 << 32, r);
    // ---- AVC profile over all 2^16 (idc, flags) pairs ----------------------------------------------
    {
        let mut a = Acc::new("(profile_idc, constraint flags) -> AvcProfile");
        let other = tables["avc_other"].as_str().unwrap().to_string();
        for idc in 0..=255u32 {
            let row = tables["avc"].get(idc.to_string());
            for fl in 0..=255u32 {
                let want = match row {
                    Some(r) => r[fl.to_string().as_str()].as_str().unwrap().to_string(),
                    None => other.clone(),
                };
                // rows not exported explicitly are "reject" unless the idc is one of the profile ids
                let want = if row.is_none() && [66u32, 77, 88, 100].contains(&idc) { "?".to_string() } else { want };
                let got = AvcProfile::try_from((idc as u8, fl as u8)).map(|p| format!("{:?}", p)).unwrap_or("reject".into());
                a.check(got == want, || json!({"idc": idc, "flags": fl, "got": got, "want": want}));
            }
        }
        a.emit(out, 65536);
    }
    // ---- packed language over all 2^16 codes and all [a-z]^3 -----------------------------------------
    {
        let mut a = Acc::new("packed language code -> text -> code");
        for c in 0..=65535u32 {
            let (s, back) = mdhd_roundtrip_code(c as u16);
            let want: Vec<u8> = from_bytes(&tables["lang"][c.to_string().as_str()]);
            a.check(s.as_bytes() == &want[..] && back == (c as u16 & 0x7fff), || json!({"code": c, "text": bytes_val(s.as_bytes()), "back": back}));
        }
        a.emit(out, 65536);
        let mut a = Acc::new("language text -> packed code -> text");
        for x in 0..26u8 {
            for y in 0..26u8 {
                for z in 0..26u8 {
                    let s = String::from_utf8(vec![b'a' + x, b'a' + y, b'a' + z]).unwrap();
                    let m = MdhdBox { language: s.clone(), ..Default::default() };
                    let mut o = Vec::new();
                    m.write_box(&mut o).unwrap();
                    let mut c = Cursor::new(o);
                    let h = BoxHeader::read(&mut c).unwrap();
                    let r = MdhdBox::read_box(&mut c, h.size).unwrap();
                    a.check(r.language == s, || json!({"lang": s, "got": r.language}));
                }
            }
        }
        a.emit(out, 17576);
    }
    // ---- fixed point ----------------------------------------------------------------------------------
    {
        let mut a = Acc::new("fixed point 8.8");
        for v in 0..=255u16 {
            a.check(FixedPointU8::new(v as u8).value() == v as u8 && FixedPointU8::new(v as u8).raw_value() == v * 256, || json!(v));
            a.check(FixedPointI8::new(v as u8 as i8).value() == v as u8 as i8, || json!(v));
        }
        for r in 0..=65535u32 {
            let f = FixedPointU8::new_raw(r as u16);
            a.check(f.raw_value() == r as u16 && f.value() as u32 == r >> 8, || json!(r));
            let g = FixedPointI8::new_raw(r as u16 as i16);
            a.check(g.raw_value() == r as u16 as i16, || json!(r));
            let want = tables["fx88s"][r.to_string().as_str()].as_i64().unwrap();
            a.check(g.value() as i64 == want, || json!({"raw": r, "value": g.value(), "want": want}));
        }
        let n = a.checked;
        a.emit(out, n);
    }
    let r = par(1u64 << 32, 1, |x| {
        let raw = x as u32;
        let f = FixedPointU16::new_raw(raw);
        if f.raw_value() == raw && f.value() as u32 == raw >> 16 { None } else { Some(json!({"raw": big(raw as u64)})) }
    });
    emit_par(out, "fixed point 16.16 raw -> value / raw", 1u64 << 32, r);
    {
        let mut a = Acc::new("fixed point 16.16 new");
        for v in 0..=65535u32 {
            let f = FixedPointU16::new(v as u16);
            a.check(f.value() == v as u16 && f.raw_value() == v << 16, || json!(v));
        }
        a.emit(out, 65536);
    }
}
