// Stream environments.  All in memory.
//   Sparse  — Read+Write+Seek over a map of extents; long runs of one byte are stored as
//             (len, byte), so > 4 GiB files cost nothing.
//   Ctl<S>  — wraps any stream: counts calls/bytes, enforces an operation budget, injects one
//             fault at the k-th call, splits transfers, injects Interrupted.
use std::cell::Cell;
use std::collections::BTreeMap;
use std::rc::Rc;
use std::io::{self, Read, Seek, SeekFrom, Write};

#[derive(Clone, Debug)]
enum Ext {
    Data(Vec<u8>),
    Fill(u64, u8),
}
impl Ext {
    fn len(&self) -> u64 {
        match self {
            Ext::Data(d) => d.len() as u64,
            Ext::Fill(n, _) => *n,
        }
    }
    fn slice(&self, from: u64, to: u64) -> Ext {
        match self {
            Ext::Data(d) => Ext::Data(d[from as usize..to as usize].to_vec()),
            Ext::Fill(_, b) => Ext::Fill(to - from, *b),
        }
    }
}

#[derive(Clone, Debug, Default)]
pub struct Sparse {
    exts: BTreeMap<u64, Ext>,
    pub pos: u64,
    pub len: u64,
}

impl Sparse {
    pub fn new() -> Self {
        Self::default()
    }
    pub fn from_vec(v: Vec<u8>) -> Self {
        let mut s = Sparse::new();
        s.len = v.len() as u64;
        if !v.is_empty() {
            s.exts.insert(0, Ext::Data(v));
        }
        s
    }
    fn cut(&mut self, lo: u64, hi: u64) {
        // remove [lo, hi) from the extent map, keeping the remainders
        let keys: Vec<u64> = self
            .exts
            .range(..hi)
            .filter(|(o, e)| **o + e.len() > lo)
            .map(|(o, _)| *o)
            .collect();
        for o in keys {
            let e = self.exts.remove(&o).unwrap();
            let end = o + e.len();
            if o < lo {
                self.exts.insert(o, e.slice(0, lo - o));
            }
            if end > hi {
                self.exts.insert(hi, e.slice(hi - o, end - o));
            }
        }
    }
    pub fn write_at(&mut self, off: u64, buf: &[u8]) {
        if buf.is_empty() {
            return;
        }
        let n = buf.len() as u64;
        self.cut(off, off + n);
        let uniform = buf.len() >= 65536 && buf.iter().all(|&x| x == buf[0]);
        if uniform {
            self.exts.insert(off, Ext::Fill(n, buf[0]));
        } else {
            // coalesce with a directly preceding small data extent
            let prev = self.exts.range(..off).next_back().map(|(o, e)| (*o, e.len()));
            let mut done = false;
            if let Some((po, pl)) = prev {
                if po + pl == off && pl < (1 << 20) {
                    if let Some(Ext::Data(d)) = self.exts.get_mut(&po) {
                        d.extend_from_slice(buf);
                        done = true;
                    }
                }
            }
            if !done {
                self.exts.insert(off, Ext::Data(buf.to_vec()));
            }
        }
        if off + n > self.len {
            self.len = off + n;
        }
    }
    /// bytes [off, off+n) (holes read as zero); clipped to len
    pub fn read_range(&self, off: u64, n: usize) -> Vec<u8> {
        let end = off.saturating_add(n as u64).min(self.len);
        if end <= off {
            return Vec::new();
        }
        let mut out = vec![0u8; (end - off) as usize];
        for (o, e) in self.exts.range(..end) {
            let ee = *o + e.len();
            if ee <= off {
                continue;
            }
            let lo = off.max(*o);
            let hi = end.min(ee);
            match e {
                Ext::Data(d) => out[(lo - off) as usize..(hi - off) as usize]
                    .copy_from_slice(&d[(lo - o) as usize..(hi - o) as usize]),
                Ext::Fill(_, b) => {
                    for x in &mut out[(lo - off) as usize..(hi - off) as usize] {
                        *x = *b;
                    }
                }
            }
        }
        out
    }
    pub fn to_vec(&self) -> Vec<u8> {
        self.read_range(0, self.len as usize)
    }
    /// FNV-style digest of the whole content without materialising fills
    pub fn content_hash(&self) -> u64 {
        let mut h: u64 = 0xcbf29ce484222325;
        let mut at = 0u64;
        let mut feed = |x: u64| {
            h ^= x;
            h = h.wrapping_mul(0x100000001b3);
        };
        for (o, e) in self.exts.iter() {
            if *o > at {
                feed(0xFFFF_0000 ^ (*o - at));
            }
            match e {
                Ext::Data(d) => {
                    for &b in d {
                        feed(b as u64)
                    }
                }
                Ext::Fill(n, b) => {
                    feed(0xEEEE_0000 ^ *n);
                    feed(*b as u64)
                }
            }
            at = *o + e.len();
        }
        feed(self.len);
        h
    }
}

impl Read for Sparse {
    fn read(&mut self, buf: &mut [u8]) -> io::Result<usize> {
        let v = self.read_range(self.pos, buf.len());
        buf[..v.len()].copy_from_slice(&v);
        self.pos = self.pos.saturating_add(v.len() as u64);
        Ok(v.len())
    }
}
impl Write for Sparse {
    fn write(&mut self, buf: &[u8]) -> io::Result<usize> {
        let p = self.pos;
        self.write_at(p, buf);
        self.pos += buf.len() as u64;
        Ok(buf.len())
    }
    fn flush(&mut self) -> io::Result<()> {
        Ok(())
    }
}
impl Seek for Sparse {
    fn seek(&mut self, to: SeekFrom) -> io::Result<u64> {
        let np: i128 = match to {
            SeekFrom::Start(p) => p as i128,
            SeekFrom::Current(d) => self.pos as i128 + d as i128,
            SeekFrom::End(d) => self.len as i128 + d as i128,
        };
        if np < 0 {
            return Err(io::Error::new(io::ErrorKind::InvalidInput, "seek before start"));
        }
        self.pos = np as u64;
        Ok(self.pos)
    }
}

#[derive(Clone, Copy, Debug, PartialEq, Eq)]
pub enum FaultKind {
    None,
    ReadErr,
    SeekErr,
    WriteErr,
    WriteZero,
    AnyErr, // the k-th call of any kind fails
}

#[derive(Clone, Debug, Default)]
pub struct Counters {
    pub ops: u64,
    pub reads: u64,
    pub writes: u64,
    pub seeks: u64,
    pub bytes_read: u64,
    pub bytes_written: u64,
    pub budget_hit: bool,
    pub fault_fired: bool,
}

/// Controlled stream.
pub struct Ctl<S> {
    pub inner: S,
    pub c: Counters,
    pub budget: u64,       // 0 = unlimited; beyond it every call fails
    pub fault_at: u64,     // 1-based index among the calls selected by fault_kind; 0 = none
    pub fault_kind: FaultKind,
    sel: u64,              // calls of the selected kind seen so far
    pub split: u64,        // 0 = off; else PRNG state for transfer splitting
    pub max_chunk: usize,  // with split: at most this many bytes per call (>=1)
    pub interrupts: bool,  // with split: inject Interrupted with probability 1/4
    pub split_max_len: usize, // with split: only transfers of at most this many bytes are split (0 = all)
    pub ops_shared: Rc<Cell<u64>>,   // mirrors c.ops for an observer that does not own the stream
    pub fired_shared: Rc<Cell<bool>>,
    pub bytes_shared: Rc<Cell<u64>>, // bytes read + written
    /// armed from outside while a library object owns the stream: 0 = off; 1 = the next call of
    /// any kind fails; n >= 2 = writes accept n-2 more bytes in total, then the next write fails.
    /// Disarms itself when it fires.
    pub arm_shared: Rc<Cell<u64>>,
}

impl<S> Ctl<S> {
    pub fn new(inner: S) -> Self {
        Ctl {
            inner,
            c: Counters::default(),
            budget: 0,
            fault_at: 0,
            fault_kind: FaultKind::None,
            sel: 0,
            split: 0,
            max_chunk: 1,
            interrupts: false,
            split_max_len: 0,
            ops_shared: Rc::new(Cell::new(0)),
            fired_shared: Rc::new(Cell::new(false)),
            bytes_shared: Rc::new(Cell::new(0)),
            arm_shared: Rc::new(Cell::new(0)),
        }
    }
    fn rnd(&mut self) -> u64 {
        let mut x = self.split;
        x ^= x >> 12;
        x ^= x << 25;
        x ^= x >> 27;
        self.split = x;
        x.wrapping_mul(0x2545F4914F6CDD1D)
    }
    fn over_budget(&mut self) -> bool {
        if self.budget > 0 && self.c.ops > self.budget {
            self.c.budget_hit = true;
            true
        } else {
            false
        }
    }
    // does the fault fire on this call?  `mine` = call is of the selected kind
    fn fires(&mut self, mine: bool) -> bool {
        if self.fault_at == 0 || !mine {
            return false;
        }
        self.sel += 1;
        if self.sel == self.fault_at {
            self.c.fault_fired = true;
            self.fired_shared.set(true);
            true
        } else {
            false
        }
    }
    // armed fault on a call that is not a write
    fn armed_any(&mut self) -> bool {
        if self.arm_shared.get() == 1 {
            self.arm_shared.set(0);
            self.fired_shared.set(true);
            true
        } else {
            false
        }
    }
    fn budget_err() -> io::Error {
        io::Error::new(io::ErrorKind::Other, "verif: operation budget exhausted")
    }
    fn fault_err() -> io::Error {
        io::Error::new(io::ErrorKind::Other, "verif: injected fault")
    }
}

impl<S: Read> Read for Ctl<S> {
    fn read(&mut self, buf: &mut [u8]) -> io::Result<usize> {
        self.c.ops += 1;
        self.ops_shared.set(self.c.ops);
        self.c.reads += 1;
        if self.over_budget() {
            return Err(Self::budget_err());
        }
        let mine = matches!(self.fault_kind, FaultKind::ReadErr | FaultKind::AnyErr);
        if self.fires(mine) || self.armed_any() {
            return Err(Self::fault_err());
        }
        let mut n = buf.len();
        if self.split != 0 && n > 0 && (self.split_max_len == 0 || n <= self.split_max_len) {
            if self.interrupts && self.rnd() % 4 == 0 {
                return Err(io::Error::new(io::ErrorKind::Interrupted, "verif: interrupted"));
            }
            let m = self.max_chunk.max(1);
            n = n.min(1 + (self.rnd() as usize % m));
        }
        let r = self.inner.read(&mut buf[..n])?;
        self.c.bytes_read += r as u64;
        self.bytes_shared.set(self.bytes_shared.get() + r as u64);
        Ok(r)
    }
}
impl<S: Write> Write for Ctl<S> {
    fn write(&mut self, buf: &[u8]) -> io::Result<usize> {
        self.c.ops += 1;
        self.ops_shared.set(self.c.ops);
        self.c.writes += 1;
        if self.over_budget() {
            return Err(Self::budget_err());
        }
        let mine = matches!(
            self.fault_kind,
            FaultKind::WriteErr | FaultKind::WriteZero | FaultKind::AnyErr
        );
        if self.fires(mine) {
            if self.fault_kind == FaultKind::WriteZero {
                return Ok(0);
            }
            return Err(Self::fault_err());
        }
        if self.armed_any() {
            return Err(Self::fault_err());
        }
        let mut n = buf.len();
        let armed = self.arm_shared.get();
        if armed >= 2 && n > 0 {
            let left = (armed - 2) as usize;
            if left == 0 {
                self.arm_shared.set(0);
                self.fired_shared.set(true);
                return Err(Self::fault_err());
            }
            n = n.min(left);
            self.arm_shared.set(armed - n as u64);
        }
        if self.split != 0 && n > 0 && (self.split_max_len == 0 || n <= self.split_max_len) {
            if self.interrupts && self.rnd() % 4 == 0 {
                return Err(io::Error::new(io::ErrorKind::Interrupted, "verif: interrupted"));
            }
            let m = self.max_chunk.max(1);
            n = n.min(1 + (self.rnd() as usize % m));
        }
        let r = self.inner.write(&buf[..n])?;
        self.c.bytes_written += r as u64;
        self.bytes_shared.set(self.bytes_shared.get() + r as u64);
        Ok(r)
    }
    fn flush(&mut self) -> io::Result<()> {
        self.inner.flush()
    }
}
impl<S: Seek> Seek for Ctl<S> {
    fn seek(&mut self, to: SeekFrom) -> io::Result<u64> {
        self.c.ops += 1;
        self.ops_shared.set(self.c.ops);
        self.c.seeks += 1;
        if self.over_budget() {
            return Err(Self::budget_err());
        }
        let mine = matches!(self.fault_kind, FaultKind::SeekErr | FaultKind::AnyErr);
        if self.fires(mine) || self.armed_any() {
            return Err(Self::fault_err());
        }
        self.inner.seek(to)
    }
}
