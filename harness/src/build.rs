// Constructing library values from the specification's values (C04: "every value whose fields
// are representable in its wire format").  `FromSpec` is implemented for the primitive field
// types once; `spec_struct!` lists only the FIELD NAMES of a struct -- the field types are
// inferred -- so a struct whose fields change still builds or fails to compile, never silently
// drops a field.
use mp4::verif::*;
use mp4::*;
use serde_json::Value;
use std::collections::HashMap;

pub trait FromSpec: Sized {
    fn from_spec(v: &Value) -> Option<Self>;
}

fn num(v: &Value) -> Option<u128> {
    match v {
        Value::Number(n) => n.as_u64().map(|x| x as u128),
        Value::Array(a) => {
            let mut acc: u128 = 0;
            for d in a {
                acc = acc.checked_mul(256)?.checked_add(d.as_u64()? as u128)?;
            }
            Some(acc)
        }
        _ => None,
    }
}
fn snum(v: &Value) -> Option<i64> {
    match v {
        Value::Number(n) => n.as_i64(),
        _ => num(v).map(|x| x as i64),
    }
}
macro_rules! uint { ($($t:ty),*) => { $( impl FromSpec for $t { fn from_spec(v: &Value) -> Option<Self> { <$t>::try_from(num(v)?).ok() } } )* } }
uint!(u8, u16, u32, u64);
macro_rules! sint { ($($t:ty),*) => { $( impl FromSpec for $t { fn from_spec(v: &Value) -> Option<Self> { <$t>::try_from(snum(v)?).ok() } } )* } }
sint!(i8, i16, i32);
impl FromSpec for bool {
    fn from_spec(v: &Value) -> Option<Self> {
        v.as_bool()
    }
}
impl FromSpec for String {
    fn from_spec(v: &Value) -> Option<Self> {
        let b: Vec<u8> = v.as_array()?.iter().map(|x| x.as_u64().map(|y| y as u8)).collect::<Option<_>>()?;
        String::from_utf8(b).ok()
    }
}
impl<T: FromSpec> FromSpec for Vec<T> {
    fn from_spec(v: &Value) -> Option<Self> {
        v.as_array()?.iter().map(T::from_spec).collect()
    }
}
impl<T: FromSpec> FromSpec for Option<T> {
    fn from_spec(v: &Value) -> Option<Self> {
        if v["some"].as_bool()? {
            Some(Some(T::from_spec(&v["v"])?))
        } else {
            Some(None)
        }
    }
}
impl<T: FromSpec + Copy + Default, const N: usize> FromSpec for [T; N] {
    fn from_spec(v: &Value) -> Option<Self> {
        let a = v.as_array()?;
        if a.len() != N {
            return None;
        }
        let mut out = [T::default(); N];
        for (i, x) in a.iter().enumerate() {
            out[i] = T::from_spec(x)?;
        }
        Some(out)
    }
}
impl<A: FromSpec, B: FromSpec> FromSpec for (A, B) {
    fn from_spec(v: &Value) -> Option<Self> {
        let a = v.as_array()?;
        Some((A::from_spec(a.get(0)?)?, B::from_spec(a.get(1)?)?))
    }
}
impl FromSpec for FourCC {
    fn from_spec(v: &Value) -> Option<Self> {
        Some(FourCC { value: <[u8; 4]>::from_spec(v)? })
    }
}
impl FromSpec for FixedPointU16 {
    fn from_spec(v: &Value) -> Option<Self> {
        Some(FixedPointU16::new_raw(u32::from_spec(v)?))
    }
}
impl FromSpec for FixedPointU8 {
    fn from_spec(v: &Value) -> Option<Self> {
        Some(FixedPointU8::new_raw(u16::from_spec(v)?))
    }
}
impl FromSpec for FixedPointI8 {
    fn from_spec(v: &Value) -> Option<Self> {
        Some(FixedPointI8::new_raw(i16::from_spec(v)?))
    }
}
impl FromSpec for DataType {
    fn from_spec(v: &Value) -> Option<Self> {
        DataType::try_from(u32::from_spec(v)?).ok()
    }
}
impl FromSpec for BoxType {
    fn from_spec(v: &Value) -> Option<Self> {
        Some(BoxType::from(u32::from_be_bytes(<[u8; 4]>::from_spec(v)?)))
    }
}
impl FromSpec for SLConfigDescriptor {
    fn from_spec(_: &Value) -> Option<Self> {
        Some(SLConfigDescriptor {})
    }
}

/// struct from a record: one `name` per field; `name = default` for fields that are not on the wire
macro_rules! spec_struct {
    ($t:ident { $($f:ident),* $(; $($d:ident),*)? }) => {
        impl FromSpec for $t {
            fn from_spec(v: &Value) -> Option<Self> {
                Some($t { $( $f: FromSpec::from_spec(&v[stringify!($f)])?, )* $($( $d: Default::default(), )*)? })
            }
        }
    };
}
spec_struct!(FtypBox { major_brand, minor_version, compatible_brands });
spec_struct!(Matrix { a, b, u, c, d, v, x, y, w });
spec_struct!(MvhdBox { version, flags, creation_time, modification_time, timescale, duration, rate, volume, matrix, next_track_id });
spec_struct!(TkhdBox { version, flags, creation_time, modification_time, track_id, duration, layer, alternate_group, volume, matrix, width, height });
spec_struct!(MdhdBox { version, flags, creation_time, modification_time, timescale, duration, language });
spec_struct!(HdlrBox { version, flags, handler_type, name });
spec_struct!(RgbColor { red, green, blue });
spec_struct!(VmhdBox { version, flags, graphics_mode, op_color });
spec_struct!(SmhdBox { version, flags, balance });
spec_struct!(UrlBox { version, flags, location });
spec_struct!(DrefBox { version, flags, url });
spec_struct!(SttsEntry { sample_count, sample_delta });
spec_struct!(SttsBox { version, flags, entries });
spec_struct!(CttsEntry { sample_count, sample_offset });
spec_struct!(CttsBox { version, flags, entries });
spec_struct!(StssBox { version, flags, entries });
spec_struct!(StscEntry { first_chunk, samples_per_chunk, sample_description_index; first_sample });
// first_sample is not on the wire: ISO/IEC 14496-12 8.7.4 defines it (number of the first sample of
// the run) from the other fields, and the value a user holds after reading carries it
impl FromSpec for StscBox {
    fn from_spec(v: &Value) -> Option<Self> {
        let mut entries: Vec<StscEntry> = FromSpec::from_spec(&v["entries"])?;
        let mut next: u32 = 1;
        for i in 0..entries.len() {
            entries[i].first_sample = next;
            if i + 1 < entries.len() {
                next = next.wrapping_add(entries[i + 1].first_chunk.wrapping_sub(entries[i].first_chunk).wrapping_mul(entries[i].samples_per_chunk));
            }
        }
        Some(StscBox { version: FromSpec::from_spec(&v["version"])?, flags: FromSpec::from_spec(&v["flags"])?, entries })
    }
}
spec_struct!(StszBox { version, flags, sample_size, sample_count, sample_sizes });
spec_struct!(StcoBox { version, flags, entries });
spec_struct!(Co64Box { version, flags, entries });
spec_struct!(MehdBox { version, flags, fragment_duration });
spec_struct!(TrexBox { version, flags, track_id, default_sample_description_index, default_sample_duration, default_sample_size, default_sample_flags });
spec_struct!(MfhdBox { version, flags, sequence_number });
spec_struct!(TfhdBox { version, flags, track_id, base_data_offset, sample_description_index, default_sample_duration, default_sample_size, default_sample_flags });
spec_struct!(TfdtBox { version, flags, base_media_decode_time });
spec_struct!(TrunBox { version, flags, sample_count, data_offset, first_sample_flags, sample_durations, sample_sizes, sample_flags, sample_cts });
spec_struct!(ElstEntry { segment_duration, media_time, media_rate, media_rate_fraction });
spec_struct!(ElstBox { version, flags, entries });
spec_struct!(EdtsBox { elst });
spec_struct!(EmsgBox { version, flags, timescale, presentation_time, presentation_time_delta, event_duration, id, scheme_id_uri, value, message_data });
spec_struct!(DataBox { data, data_type });
spec_struct!(NalUnit { bytes });
spec_struct!(AvcCBox { configuration_version, avc_profile_indication, profile_compatibility, avc_level_indication, length_size_minus_one, sequence_parameter_sets, picture_parameter_sets });
spec_struct!(Avc1Box { data_reference_index, width, height, horizresolution, vertresolution, frame_count, depth, avcc });
spec_struct!(HvcCArrayNalu { size, data });
spec_struct!(HvcCArray { completeness, nal_unit_type, nalus });
spec_struct!(HvcCBox { configuration_version, general_profile_space, general_tier_flag, general_profile_idc, general_profile_compatibility_flags,
    general_constraint_indicator_flag, general_level_idc, min_spatial_segmentation_idc, parallelism_type, chroma_format_idc, bit_depth_luma_minus8,
    bit_depth_chroma_minus8, avg_frame_rate, constant_frame_rate, num_temporal_layers, temporal_id_nested, length_size_minus_one, arrays });
spec_struct!(Hev1Box { data_reference_index, width, height, horizresolution, vertresolution, frame_count, depth, hvcc });
spec_struct!(VpccBox { version, flags, profile, level, bit_depth, chroma_subsampling, video_full_range_flag, color_primaries, transfer_characteristics, matrix_coefficients, codec_initialization_data_size });
spec_struct!(Vp09Box { version, flags, start_code, data_reference_index, reserved0, width, height, horizresolution, vertresolution, reserved1, frame_count, compressorname, depth, end_code, vpcc });
spec_struct!(DecoderSpecificDescriptor { profile, freq_index, chan_conf });
spec_struct!(DecoderConfigDescriptor { object_type_indication, stream_type, up_stream, buffer_size_db, max_bitrate, avg_bitrate, dec_specific });
spec_struct!(ESDescriptor { es_id, dec_config, sl_config });
spec_struct!(EsdsBox { version, flags, es_desc });
spec_struct!(Mp4aBox { data_reference_index, channelcount, samplesize, samplerate, esds });
spec_struct!(RgbaColor { red, green, blue, alpha });
spec_struct!(Tx3gBox { data_reference_index, display_flags, horizontal_justification, vertical_justification, bg_color_rgba, box_record, style_record });
spec_struct!(StsdBox { version, flags, avc1, hev1, vp09, mp4a, tx3g });
spec_struct!(StblBox { stsd, stts, ctts, stss, stsc, stsz, stco, co64 });
spec_struct!(MvexBox { mehd, trex });
spec_struct!(TrafBox { tfhd, tfdt, trun });
spec_struct!(MoofBox { mfhd, trafs });
spec_struct!(IlstItemBox { data });
spec_struct!(UdtaBox { meta });

impl FromSpec for IlstBox {
    fn from_spec(v: &Value) -> Option<Self> {
        let mut items = HashMap::new();
        for (k, x) in v["items"].as_object()?.iter() {
            let key = match k.as_str() {
                "Title" => MetadataKey::Title,
                "Year" => MetadataKey::Year,
                "Poster" => MetadataKey::Poster,
                "Summary" => MetadataKey::Summary,
                _ => return None,
            };
            items.insert(key, IlstItemBox::from_spec(x)?);
        }
        Some(IlstBox { items })
    }
}
impl FromSpec for MetaBox {
    fn from_spec(v: &Value) -> Option<Self> {
        match v["kind"].as_str()? {
            "Mdir" => Some(MetaBox::Mdir { ilst: FromSpec::from_spec(&v["ilst"])? }),
            "Unknown" => Some(MetaBox::Unknown { hdlr: FromSpec::from_spec(&v["hdlr"])?, data: FromSpec::from_spec(&v["data"])? }),
            _ => None,
        }
    }
}
