// C10: single faults at every stream call, zero-length writes, short transfers, interrupts.
// Records, per library call, the result class, a digest of the result and whether the injected
// fault fired during the call.  The verdict is Trace_Stream's.
use crate::mux::{mp4_config, track_config, Out};
use crate::streams::{Ctl, FaultKind, Sparse};
use crate::util::*;
use mp4::*;
use serde_json::{json, Value};
use std::cell::Cell;
use std::io::{Seek, SeekFrom};
use std::rc::Rc;

#[derive(Clone, Copy)]
pub struct Plan {
    pub kind: FaultKind,
    pub at: u64,
    pub split: u64,
    pub max_chunk: usize,
    pub interrupts: bool,
    pub split_max_len: usize,
}
impl Plan {
    pub fn clean() -> Self {
        Plan { kind: FaultKind::None, at: 0, split: 0, max_chunk: 1, interrupts: false, split_max_len: 0 }
    }
}

fn arm(mut s: Ctl<Sparse>, p: &Plan) -> (Ctl<Sparse>, Rc<Cell<u64>>, Rc<Cell<bool>>) {
    s.fault_kind = p.kind;
    s.fault_at = p.at;
    s.split = p.split;
    s.max_chunk = p.max_chunk;
    s.interrupts = p.interrupts;
    s.split_max_len = p.split_max_len;
    let (a, b) = (s.ops_shared.clone(), s.fired_shared.clone());
    (s, a, b)
}

fn dg(b: &[u8]) -> Value {
    bytes_val(&digest(b))
}

struct Log {
    calls: Vec<Value>,
    ops: Rc<Cell<u64>>,
    fired: Rc<Cell<bool>>,
    was_fired: bool,
}
impl Log {
    fn call(&mut self, name: &str, res: &str, d: Value) {
        let f = self.fired.get() && !self.was_fired;
        self.was_fired = self.fired.get();
        self.calls.push(json!({"name": name, "res": res, "d": d, "fired": f, "ops": self.ops.get()}));
    }
}

/// reading session: open + read every sample; returns the per-call log
pub fn read_session(bytes: &[u8], ids: &[(u32, u32)], p: &Plan) -> (Vec<Value>, u64) {
    let (s, ops, fired) = arm(Ctl::new(Sparse::from_vec(bytes.to_vec())), p);
    let mut log = Log { calls: vec![], ops: ops.clone(), fired, was_fired: false };
    let r = guarded(|| Mp4Reader::read_header(s, bytes.len() as u64));
    let mut reader = match r {
        Ok(Ok(r)) => {
            let mut t: Vec<u32> = r.tracks().keys().copied().collect();
            t.sort();
            // the parsed structures, in a canonical rendering (maps sorted): what open() built must
            // not depend on how the stream delivered the bytes
            let canon = serde_json::to_string(&json!([crate::dbg::parse(&format!("{:?}", r.ftyp)), crate::dbg::parse(&format!("{:?}", r.moov)),
                crate::dbg::parse(&format!("{:?}", r.emsgs))])).unwrap_or_default();
            log.call("open", "ok", json!({"tracks": t, "structures": dg(canon.as_bytes())}));
            r
        }
        Ok(Err(e)) => {
            log.call("open", err_class(&e), json!([]));
            return (log.calls, ops.get());
        }
        Err(_) => {
            log.call("open", "panic", json!([]));
            return (log.calls, ops.get());
        }
    };
    for &(t, k) in ids {
        match guarded(|| reader.read_sample(t, k)) {
            Ok(Ok(Some(s))) => {
                let mut v = s.bytes.to_vec();
                v.extend_from_slice(&s.start_time.to_be_bytes());
                v.extend_from_slice(&s.duration.to_be_bytes());
                v.extend_from_slice(&s.rendering_offset.to_be_bytes());
                v.push(s.is_sync as u8);
                log.call("read", "some", dg(&v))
            }
            Ok(Ok(None)) => log.call("read", "none", json!([])),
            Ok(Err(e)) => log.call("read", err_class(&e), json!([])),
            Err(_) => log.call("read", "panic", json!([])),
        }
    }
    (log.calls, ops.get())
}

/// muxing session: stops at the first call that does not return ok
pub fn mux_session(case: &Value, p: &Plan) -> (Vec<Value>, u64) {
    let pos = from_big(&case["pos"]);
    let mut sp = Sparse::new();
    sp.seek(SeekFrom::Start(pos)).unwrap();
    let (s, ops, fired) = arm(Ctl::new(sp), p);
    let mut log = Log { calls: vec![], ops: ops.clone(), fired, was_fired: false };
    let cfg = mp4_config(&case["cfg"]);
    let mut w = match guarded(|| Mp4Writer::write_start(s, &cfg)) {
        Ok(Ok(w)) => {
            log.call("start", "ok", json!([]));
            w
        }
        Ok(Err(e)) => {
            log.call("start", err_class(&e), json!([]));
            return (log.calls, ops.get());
        }
        Err(_) => {
            log.call("start", "panic", json!([]));
            return (log.calls, ops.get());
        }
    };
    let empty = Vec::new();
    for call in case["calls"].as_array().unwrap_or(&empty) {
        let (name, r): (&str, std::result::Result<Result<()>, String>) = match call["op"].as_str().unwrap_or("") {
            "add" => match track_config(&call["conf"]) {
                Ok(tc) => ("add", guarded(|| w.add_track(&tc))),
                Err(_) => continue,
            },
            "write" => {
                let bytes = payload(call["len"].as_u64().unwrap_or(0) as usize, call["fill"].as_u64().unwrap_or(0));
                let smp = Mp4Sample {
                    start_time: 0,
                    duration: from_big(&call["dur"]) as u32,
                    rendering_offset: call["cts"].as_i64().unwrap_or(0) as i32,
                    is_sync: call["sync"].as_bool().unwrap_or(false),
                    bytes: mp4::Bytes::from(bytes),
                };
                let t = call["t"].as_u64().unwrap_or(0) as u32;
                ("write", guarded(|| w.write_sample(t, &smp)))
            }
            _ => continue,
        };
        let valid = call["valid"].as_bool().unwrap_or(true);
        match r {
            Ok(Ok(())) => log.call(name, "ok", json!([])),
            Ok(Err(e)) => {
                log.call(name, err_class(&e), json!([]));
                if valid {
                    return (log.calls, ops.get());
                }
            }
            Err(_) => {
                log.call(name, "panic", json!([]));
                return (log.calls, ops.get());
            }
        }
    }
    match guarded(|| w.write_end()) {
        Ok(Ok(())) => {
            let out = w.into_writer().inner;
            log.call("end", "ok", dg(&out.content_hash().to_be_bytes()));
        }
        Ok(Err(e)) => log.call("end", err_class(&e), json!([])),
        Err(_) => log.call("end", "panic", json!([])),
    }
    (log.calls, ops.get())
}

pub fn run_case(case: &Value, out: &mut Out) {
    let id = case["id"].as_str().unwrap_or("?");
    out.ev(json!({"e":"reset","id":id}));
    let is_mux = case["cfg"].is_object();
    let bytes = from_bytes(&case["file"]);
    let mut ids: Vec<(u32, u32)> = Vec::new();
    if !is_mux {
        if let Ok(Ok(r)) = guarded(|| Mp4Reader::read_header(Sparse::from_vec(bytes.clone()), bytes.len() as u64)) {
            let mut ts: Vec<u32> = r.tracks().keys().copied().collect();
            ts.sort();
            for t in ts {
                let n = r.sample_count(t).unwrap_or(0).min(24);
                for k in 1..=n + 1 {
                    ids.push((t, k));
                }
            }
        }
    }
    let session = |p: &Plan| if is_mux { mux_session(case, p) } else { read_session(&bytes, &ids, p) };
    let (clean, n) = session(&Plan::clean());
    out.ev(json!({"e":"clean","calls":clean,"ops":n,"mux":is_mux}));
    if case["big"].as_bool().unwrap_or(false) {
        // a history of several GiB: the transparency patterns only, applied to the small transfers
        // (headers, tables, the patched media-data header); the bulk writes pass whole
        let plans = [
            ("one byte per call (transfers up to 4 KiB)", Plan { split: 0x1234_5678_9ABC_DEF1, max_chunk: 1, split_max_len: 4096, ..Plan::clean() }),
            ("interrupted calls, random splits (transfers up to 4 KiB)", Plan { split: 0x9999_2222_3333_4447, max_chunk: 5, interrupts: true, split_max_len: 4096, ..Plan::clean() }),
        ];
        for (name, p) in plans.iter().take(case["patterns"].as_u64().unwrap_or(2) as usize) {
            let (calls, _) = session(p);
            out.ev(json!({"e":"split","pattern":name,"calls":calls,"mux":is_mux}));
        }
        return;
    }
    let stride = case["stride"].as_u64().unwrap_or(1).max(1);
    // every index of every stream call x fault kinds
    let kinds: Vec<(&str, FaultKind)> = if is_mux {
        vec![("any-err", FaultKind::AnyErr), ("write-zero", FaultKind::WriteZero), ("write-err", FaultKind::WriteErr), ("seek-err", FaultKind::SeekErr)]
    } else {
        vec![("any-err", FaultKind::AnyErr), ("read-err", FaultKind::ReadErr), ("seek-err", FaultKind::SeekErr)]
    };
    for (kn, kind) in kinds {
        let mut k = 1;
        while k <= n + 1 {
            let p = Plan { kind, at: k, ..Plan::clean() };
            let (calls, _) = session(&p);
            let fired = calls.iter().any(|c| c["fired"].as_bool().unwrap_or(false));
            out.ev(json!({"e":"faulty","kind":kn,"k":k,"calls":calls,"mux":is_mux}));
            if !fired && kind != FaultKind::AnyErr {
                break; // fewer calls of this kind than k: later indices cannot fire either
            }
            k += stride;
        }
    }
    // transparency: one byte per call; random splits; interrupts
    let plans = [
        ("one byte per call", Plan { split: 0x1234_5678_9ABC_DEF1, max_chunk: 1, ..Plan::clean() }),
        ("random splits up to 7", Plan { split: 0x0F0F_1234_5555_AAA1, max_chunk: 7, ..Plan::clean() }),
        ("random splits up to 4096", Plan { split: 0x7777_1234_5555_AAA3, max_chunk: 4096, ..Plan::clean() }),
        ("interrupted calls, one byte", Plan { split: 0x1111_2222_3333_4445, max_chunk: 1, interrupts: true, ..Plan::clean() }),
        ("interrupted calls, random splits", Plan { split: 0x9999_2222_3333_4447, max_chunk: 64, interrupts: true, ..Plan::clean() }),
    ];
    for (name, p) in plans.iter() {
        let (calls, _) = session(p);
        out.ev(json!({"e":"split","pattern":name,"calls":calls,"mux":is_mux}));
    }
}
