// Reader suite: open a file (optionally a media segment against an init segment) with the real
// Mp4Reader, perform a schedule of calls, record every result.  No oracle here.
use crate::mux::Out;
use crate::streams::Sparse;
use crate::util::*;
use mp4::*;
use serde_json::{json, Value};
use std::io::{Read, Seek};

const VERB: usize = 1024;

pub fn img_of(bytes: &[u8]) -> Value {
    json!({"start": [], "len": big(bytes.len() as u64), "segs": [{"off": [], "bytes": bytes_val(bytes)}]})
}
/// a file of `total` bytes of which only the first `bytes` are given (the rest reads as zero)
pub fn img_sparse(bytes: &[u8], total: u64) -> Value {
    json!({"start": [], "len": big(total.max(bytes.len() as u64)), "segs": [{"off": [], "bytes": bytes_val(bytes)}]})
}
fn sparse_of(bytes: &[u8], total: u64) -> Sparse {
    let mut s = Sparse::from_vec(bytes.to_vec());
    s.len = s.len.max(total);
    s
}

fn sample_json(s: &Mp4Sample) -> Value {
    let b = &s.bytes;
    let head: &[u8] = if b.len() >= 8 { &b[..8] } else { &[] };
    let tail: &[u8] = if b.len() >= 8 { &b[b.len() - 8..] } else { &[] };
    json!({"len": b.len(), "h": bytes_val(&digest(b)),
        "b": if b.len() <= VERB { bytes_val(b) } else { json!([]) },
        "head": bytes_val(head), "tail": bytes_val(tail),
        "dur": big(s.duration as u64), "cts": s.rendering_offset, "sync": s.is_sync, "start": big(s.start_time)})
}

pub fn read_event<R: Read + Seek>(r: &mut Mp4Reader<R>, t: u32, k: u32) -> Value {
    match guarded(|| r.read_sample(t, k)) {
        Ok(Ok(Some(s))) => json!({"e":"read","t":t,"k":k,"res":"some","s":sample_json(&s),"msg":""}),
        Ok(Ok(None)) => json!({"e":"read","t":t,"k":k,"res":"none","msg":""}),
        Ok(Err(e)) => json!({"e":"read","t":t,"k":k,"res":err_class(&e),"msg":e.to_string()}),
        Err(p) => json!({"e":"read","t":t,"k":k,"res":"panic","msg":p}),
    }
}
pub fn offset_event<R: Read + Seek>(r: &mut Mp4Reader<R>, t: u32, k: u32) -> Value {
    match guarded(|| r.sample_offset(t, k)) {
        Ok(Ok(o)) => json!({"e":"offset","t":t,"k":k,"res":"ok","off":big(o)}),
        Ok(Err(e)) => json!({"e":"offset","t":t,"k":k,"res":err_class(&e),"off":[]}),
        Err(p) => json!({"e":"offset","t":t,"k":k,"res":"panic","off":[],"msg":p}),
    }
}
pub fn count_event<R: Read + Seek>(r: &mut Mp4Reader<R>, t: u32) -> Value {
    match guarded(|| r.sample_count(t)) {
        Ok(Ok(n)) => json!({"e":"count","t":t,"res":"ok","n":n}),
        Ok(Err(e)) => json!({"e":"count","t":t,"res":err_class(&e),"n":0}),
        Err(p) => json!({"e":"count","t":t,"res":"panic","n":0,"msg":p}),
    }
}
fn opt_bytes(o: Option<Vec<u8>>) -> Value {
    match o {
        Some(b) => json!({"some": true, "v": bytes_val(&b)}),
        None => json!({"some": false}),
    }
}
pub fn movie_event<R: Read + Seek>(r: &Mp4Reader<R>) -> Value {
    match guarded(|| (r.duration().as_millis(), r.timescale())) {
        Ok((d, ts)) => json!({"e":"movie","res":"ok","dur_ms":big128(d),"timescale":big(ts as u64)}),
        Err(p) => json!({"e":"movie","res":"panic","dur_ms":[],"timescale":[],"msg":p}),
    }
}
pub fn meta_event<R: Read + Seek>(r: &Mp4Reader<R>) -> Value {
    let m = guarded(|| {
        let md = r.metadata();
        (
            md.title().map(|c| c.as_bytes().to_vec()),
            md.year(),
            md.poster().map(|p| p.to_vec()),
            md.summary().map(|c| c.as_bytes().to_vec()),
        )
    });
    match m {
        Ok((t, y, p, s)) => json!({"e":"meta","res":"ok","title":opt_bytes(t),
            "year": match y { Some(v) => json!({"some":true,"v":big(v as u64)}), None => json!({"some":false}) },
            "poster":opt_bytes(p),"summary":opt_bytes(s)}),
        Err(p) => json!({"e":"meta","res":"panic","msg":p,"title":{"some":false},"year":{"some":false},
            "poster":{"some":false},"summary":{"some":false}}),
    }
}

/// open `bytes` (against `init` when given); Err carries the event describing the failure
pub fn open_reader(bytes: &[u8], init: Option<&[u8]>) -> std::result::Result<Mp4Reader<Sparse>, Value> {
    open_reader_total(bytes, init, bytes.len() as u64, None, 0)
}
/// `parent_calls`: calls made on the reader of `init` BEFORE the segment reader is derived from it
/// (their results are not recorded: the derived reader's answers must not depend on them)
pub fn open_reader_total(
    bytes: &[u8],
    init: Option<&[u8]>,
    total: u64,
    parent_calls: Option<&Vec<Value>>,
    seg_pos: u64,
) -> std::result::Result<Mp4Reader<Sparse>, Value> {
    let fail = |r: std::result::Result<Error, String>| match r {
        Ok(e) => json!({"e":"open","res":err_class(&e),"msg":e.to_string(),"tracks":[]}),
        Err(p) => json!({"e":"open","res":"panic","msg":p,"tracks":[]}),
    };
    match init {
        None => match guarded(|| Mp4Reader::read_header(sparse_of(bytes, total), total.max(bytes.len() as u64))) {
            Ok(Ok(r)) => Ok(r),
            Ok(Err(e)) => Err(fail(Ok(e))),
            Err(p) => Err(fail(Err(p))),
        },
        Some(ib) => {
            let mut base = match guarded(|| Mp4Reader::read_header(Sparse::from_vec(ib.to_vec()), ib.len() as u64)) {
                Ok(Ok(r)) => r,
                Ok(Err(e)) => return Err(fail(Ok(e))),
                Err(p) => return Err(fail(Err(p))),
            };
            for c in parent_calls.map(|v| v.as_slice()).unwrap_or(&[]) {
                let t = c["t"].as_u64().unwrap_or(0) as u32;
                let k = c["k"].as_u64().unwrap_or(0) as u32;
                let _ = match c["op"].as_str().unwrap_or("") {
                    "read" => guarded(|| base.read_sample(t, k).map(|_| ())),
                    "offset" => guarded(|| base.sample_offset(t, k).map(|_| ())),
                    _ => guarded(|| base.sample_count(t).map(|_| ())),
                };
            }
            // the segment may start at a position other than 0 of its stream (filler before it)
            let mut seg = vec![0xEEu8; seg_pos as usize];
            seg.extend_from_slice(bytes);
            let mut st = Sparse::from_vec(seg);
            st.pos = seg_pos;
            match guarded(|| base.read_fragment_header(st, seg_pos + bytes.len() as u64)) {
                Ok(Ok(r)) => Ok(r),
                Ok(Err(e)) => Err(fail(Ok(e))),
                Err(p) => Err(fail(Err(p))),
            }
        }
    }
}

pub fn run_case(case: &Value, out: &mut Out) {
    let id = case["id"].as_str().unwrap_or("?");
    let prop = case["prop"].as_str().unwrap_or("C03");
    out.ev(json!({"e":"reset","id":id,"prop":prop}));
    let bytes = from_bytes(&case["file"]);
    let init: Option<Vec<u8>> = if case["init"].is_array() { Some(from_bytes(&case["init"])) } else { None };
    // "total": the file is longer than the bytes given (header-only rendering of a huge movie)
    let total = if case["total"].is_array() { from_big(&case["total"]) } else { bytes.len() as u64 };
    let seg_pos = if case["seg_pos"].is_array() && init.is_some() { from_big(&case["seg_pos"]) } else { 0 };
    let img = if seg_pos > 0 {
        json!({"start": big(seg_pos), "len": big(seg_pos + bytes.len() as u64), "segs": [{"off": big(seg_pos), "bytes": bytes_val(&bytes)}]})
    } else {
        img_sparse(&bytes, total)
    };
    out.ev(json!({"e":"file","img":img,"has_init":init.is_some(),
        "init": init.as_ref().map(|b| img_of(b)).unwrap_or(json!({})),
        "expect_ok": case["expect_ok"].as_bool().unwrap_or(false)}));
    let mut reader = match open_reader_total(&bytes, init.as_deref(), total, case["parent_calls"].as_array(), seg_pos) {
        Ok(r) => r,
        Err(ev) => {
            out.ev(ev);
            return;
        }
    };
    let mut ids: Vec<u32> = reader.tracks().keys().copied().collect();
    ids.sort();
    out.ev(json!({"e":"open","res":"ok","tracks":ids,"msg":""}));
    // layouts that only reorder / re-head boxes: the parsed structures equal those of the reference file
    if case["ref_file"].is_array() {
        let rb = from_bytes(&case["ref_file"]);
        let canon = |r: &Mp4Reader<Sparse>| serde_json::to_string(&json!([crate::dbg::parse(&format!("{:?}", r.ftyp)), crate::dbg::parse(&format!("{:?}", r.moov)), crate::dbg::parse(&format!("{:?}", r.moofs))])).unwrap_or_default();
        let same = match open_reader(&rb, None) {
            Ok(r0) => {
                let (a, b) = (canon(&r0), canon(&reader));
                if a != b && std::env::var("MP4V_DEBUG").is_ok() {
                    let i = a.bytes().zip(b.bytes()).position(|(x, y)| x != y).unwrap_or(0);
                    eprintln!("STRUCT-DIFF at {}: ref ...{}... new ...{}...", i, &a[i.saturating_sub(120)..(i + 80).min(a.len())], &b[i.saturating_sub(120)..(i + 80).min(b.len())]);
                }
                a == b
            }
            Err(_) => false,
        };
        out.ev(json!({"e":"same","what":"a layout that only reorders boxes parses to other structures than the reference layout","same":same,"detail":id}));
    }
    if case["meta"].as_bool().unwrap_or(false) {
        out.ev(meta_event(&reader));
    }
    // "other": a second reader over ANOTHER file, used on the same thread; it is asked every call first
    // (its answers are not recorded: the answers of `reader` must not depend on them)
    let mut other: Option<Mp4Reader<Sparse>> = if case["other"].is_object() {
        let ob = from_bytes(&case["other"]["file"]);
        let oi: Option<Vec<u8>> = if case["other"]["init"].is_array() { Some(from_bytes(&case["other"]["init"])) } else { None };
        open_reader(&ob, oi.as_deref()).ok()
    } else {
        None
    };
    let size0 = reader.size();
    if let Some(calls) = case["calls"].as_array() {
        for c in calls {
            let t = c["t"].as_u64().unwrap_or(0) as u32;
            let k = c["k"].as_u64().unwrap_or(0) as u32;
            if let Some(o) = other.as_mut() {
                let _ = match c["op"].as_str().unwrap_or("") {
                    "read" => guarded(|| o.read_sample(t, k).map(|_| ())),
                    "offset" => guarded(|| o.sample_offset(t, k).map(|_| ())),
                    "count" => guarded(|| o.sample_count(t).map(|_| ())),
                    _ => Ok(Ok(())),
                };
            }
            // "fresh": the same call is put to a reader opened for this call alone; the two answers are compared
            // as recorded values (history independence of files whose tables the specification does not interpret)
            if case["fresh"].as_bool().unwrap_or(false) {
                let op = c["op"].as_str().unwrap_or("");
                if let Ok(mut fr) = open_reader_total(&bytes, init.as_deref(), total, None, seg_pos) {
                    let (a, b) = match op {
                        "read" => (read_event(&mut reader, t, k), read_event(&mut fr, t, k)),
                        "offset" => (offset_event(&mut reader, t, k), offset_event(&mut fr, t, k)),
                        _ => (count_event(&mut reader, t), count_event(&mut fr, t)),
                    };
                    out.ev(json!({"e":"same","what":"a call answers differently on a reader with a history than on a fresh reader",
                        "same": a == b, "detail": [op, t, k, a["res"], b["res"]]}));
                }
                continue;
            }
            match c["op"].as_str().unwrap_or("") {
                "read" => out.ev(read_event(&mut reader, t, k)),
                "offset" => out.ev(offset_event(&mut reader, t, k)),
                "count" => out.ev(count_event(&mut reader, t)),
                "meta" => out.ev(meta_event(&reader)),
                "movie" => out.ev(movie_event(&reader)),
                _ => {}
            }
        }
        // the reader's own accessors that take no sample id answer the same after the session as before it
        if !calls.is_empty() {
            let size1 = reader.size();
            out.ev(json!({"e":"same","what":"Mp4Reader::size() changed during the session","same": size0 == size1,
                "detail": [big(size0), big(size1)]}));
        }
        return;
    }
    let mut ts = vec![0u32];
    ts.extend(ids.iter().copied());
    ts.push(ids.iter().copied().max().unwrap_or(0) + 1);
    out.ev(movie_event(&reader));
    for &t in ts.iter() {
        out.ev(count_event(&mut reader, t));
    }
    for &t in ids.iter() {
        let n = reader.sample_count(t).unwrap_or(0).min(5000);
        for k in 0..=n + 2 {
            out.ev(read_event(&mut reader, t, k));
            out.ev(offset_event(&mut reader, t, k));
        }
    }
    out.ev(read_event(&mut reader, ts[ts.len() - 1], 1));
}
