// Parser for the output of #[derive(Debug)] into serde_json::Value (struct -> object, tuple
// struct -> {"_": name, "0": ..}, enum variant -> {"_variant": name, fields..}, list -> array,
// map -> object keyed by the Debug of the key, numbers -> i128-backed JSON numbers / strings for
// > u64, strings -> string, Some(x) -> {"some":true,"v":x}, None -> {"some":false}).
// It makes every field of every box observable without per-box extraction code.
use serde_json::{json, Map, Value};

pub struct P<'a> {
    s: &'a [u8],
    i: usize,
}

impl<'a> P<'a> {
    pub fn new(s: &'a str) -> Self {
        P { s: s.as_bytes(), i: 0 }
    }
    fn ws(&mut self) {
        while self.i < self.s.len() && (self.s[self.i] as char).is_whitespace() {
            self.i += 1;
        }
    }
    fn peek(&mut self) -> u8 {
        self.ws();
        if self.i < self.s.len() {
            self.s[self.i]
        } else {
            0
        }
    }
    fn eat(&mut self, c: u8) -> bool {
        if self.peek() == c {
            self.i += 1;
            true
        } else {
            false
        }
    }
    fn ident(&mut self) -> String {
        self.ws();
        let st = self.i;
        while self.i < self.s.len() && ((self.s[self.i] as char).is_ascii_alphanumeric() || self.s[self.i] == b'_') {
            self.i += 1;
        }
        String::from_utf8_lossy(&self.s[st..self.i]).to_string()
    }
    fn string(&mut self) -> Value {
        // after the opening quote
        let mut out = String::new();
        let bytes = self.s;
        let text = std::str::from_utf8(&bytes[self.i..]).unwrap_or("");
        let mut chars = text.char_indices();
        let mut consumed = 0;
        while let Some((idx, c)) = chars.next() {
            consumed = idx + c.len_utf8();
            match c {
                '"' => break,
                '\\' => {
                    if let Some((i2, e)) = chars.next() {
                        consumed = i2 + e.len_utf8();
                        match e {
                            'n' => out.push('\n'),
                            'r' => out.push('\r'),
                            't' => out.push('\t'),
                            '0' => out.push('\0'),
                            '\\' => out.push('\\'),
                            '"' => out.push('"'),
                            '\'' => out.push('\''),
                            'u' => {
                                // \u{XXXX}
                                let mut hex = String::new();
                                for (i3, h) in chars.by_ref() {
                                    consumed = i3 + h.len_utf8();
                                    if h == '}' {
                                        break;
                                    }
                                    if h != '{' {
                                        hex.push(h);
                                    }
                                }
                                if let Some(ch) = u32::from_str_radix(&hex, 16).ok().and_then(char::from_u32) {
                                    out.push(ch);
                                }
                            }
                            other => out.push(other),
                        }
                    }
                }
                other => out.push(other),
            }
        }
        self.i += consumed;
        Value::String(out)
    }
    fn number(&mut self) -> Value {
        self.ws();
        let st = self.i;
        if self.i < self.s.len() && self.s[self.i] == b'-' {
            self.i += 1;
        }
        while self.i < self.s.len() && (self.s[self.i].is_ascii_digit()) {
            self.i += 1;
        }
        let t = String::from_utf8_lossy(&self.s[st..self.i]).to_string();
        if let Ok(v) = t.parse::<i64>() {
            json!(v)
        } else if let Ok(v) = t.parse::<u64>() {
            json!(v)
        } else {
            Value::String(t)
        }
    }
    fn list(&mut self, close: u8) -> Vec<Value> {
        let mut v = Vec::new();
        loop {
            if self.eat(close) {
                break;
            }
            v.push(self.value());
            if !self.eat(b',') {
                self.eat(close);
                break;
            }
        }
        v
    }
    fn fields(&mut self, m: &mut Map<String, Value>) {
        // after '{' : name: value, ...
        loop {
            if self.eat(b'}') {
                break;
            }
            let k = self.ident();
            self.eat(b':');
            let v = self.value();
            m.insert(k, v);
            if !self.eat(b',') {
                self.eat(b'}');
                break;
            }
        }
    }
    /// FourCC's hand-written Debug: `<lossy text> / 0xXXXXXXXX`
    fn fourcc(&mut self) -> Option<Value> {
        self.ws();
        let end = (self.i + 48).min(self.s.len());
        let win = &self.s[self.i..end];
        let pat = b" / 0x";
        let pos = win.windows(pat.len()).position(|w| w == pat)?;
        let hex = win.get(pos + pat.len()..pos + pat.len() + 8)?;
        if !hex.iter().all(|c| c.is_ascii_hexdigit()) {
            return None;
        }
        // the text part must not contain structure that belongs to a sibling field
        if pos > 16 || (win[..pos].iter().any(|&c| c == b',' || c == b':' || c == b'{' || c == b'[') && pos > 4) {
            return None;
        }
        let code = u32::from_str_radix(std::str::from_utf8(hex).ok()?, 16).ok()?;
        self.i += pos + pat.len() + 8;
        Some(Value::Array(code.to_be_bytes().iter().map(|&b| json!(b)).collect()))
    }
    pub fn value(&mut self) -> Value {
        if let Some(v) = self.fourcc() {
            return v;
        }
        let c = self.peek();
        match c {
            b'"' => {
                self.i += 1;
                self.string()
            }
            b'[' => {
                self.i += 1;
                Value::Array(self.list(b']'))
            }
            b'(' => {
                self.i += 1;
                Value::Array(self.list(b')'))
            }
            b'{' => {
                // map: key: value
                self.i += 1;
                let mut m = Map::new();
                loop {
                    if self.eat(b'}') {
                        break;
                    }
                    let k = self.value();
                    self.eat(b':');
                    let v = self.value();
                    let ks = match k {
                        Value::String(s) => s,
                        Value::Object(o) => o.get("_variant").and_then(|x| x.as_str()).unwrap_or("?").to_string(),
                        other => other.to_string(),
                    };
                    m.insert(ks, v);
                    if !self.eat(b',') {
                        self.eat(b'}');
                        break;
                    }
                }
                Value::Object(m)
            }
            b'-' | b'0'..=b'9' => self.number(),
            _ => {
                let id = self.ident();
                if id.is_empty() {
                    self.i += 1;
                    return Value::Null;
                }
                match id.as_str() {
                    "true" => return json!(true),
                    "false" => return json!(false),
                    "None" => return json!({"some": false}),
                    _ => {}
                }
                if id == "Some" && self.eat(b'(') {
                    let v = self.value();
                    self.eat(b')');
                    return json!({"some": true, "v": v});
                }
                if self.eat(b'{') {
                    let mut m = Map::new();
                    m.insert("_".into(), json!(id));
                    self.fields(&mut m);
                    return Value::Object(m);
                }
                if self.eat(b'(') {
                    let l = self.list(b')');
                    let mut m = Map::new();
                    m.insert("_".into(), json!(id));
                    for (i, v) in l.into_iter().enumerate() {
                        m.insert(i.to_string(), v);
                    }
                    return Value::Object(m);
                }
                json!({"_variant": id})
            }
        }
    }
}

pub fn parse(s: &str) -> Value {
    P::new(s).value()
}
